//! C16 — Normalisation keeps character positions; search tokens tile the original text.
//! Kept in its own binary so that only this check pays for compiling tantivy.

use proptest::prelude::*;
use serde::{Deserialize, Serialize};
use tantivy::tokenizer::{TextAnalyzer, Token};
use vaporetto::{CharacterType, Predictor, Sentence};
use vaporetto_rules::sentence_filters::{ConcatGraphemeClustersFilter, KyteaWsConstFilter, SplitLinebreaksFilter};
use vaporetto_rules::string_filters::KyteaFullwidthFilter;
use vaporetto_rules::{SentenceFilter, StringFilter};
use vaporetto_tantivy::VaporettoTokenizer;
use vcommon::engine::{self, fail_sig, Info, Report, TestResult};
use vcommon::gen::{self, pick, ModelCfg};
use vcommon::mirror::ModelSpec;
use vcommon::oracle::{self, WB};
use vcommon::{ensure, ensure_eq};

/// The source characters of the KyTea full-width table as of the pinned tree (96 entries).
const TABLE_SOURCES: &str = "abcdefghijklmnopqrstuvwxyzABCDEFGHIJKLMNOPQRSTUVWXYZ0123456789(){}<>｢｣[]-～.－/_,%?､―\"'･─+:–!｡&*@=";

#[derive(Clone, Debug, Serialize, Deserialize)]
struct ScalarRange {
    from: u32,
    to: u32,
}

fn norm(s: &str) -> String {
    KyteaFullwidthFilter.filter(s)
}

fn test_scalars(r: &ScalarRange) -> TestResult {
    let mut changed = 0;
    for cp in r.from..r.to {
        let Some(c) = char::from_u32(cp) else { continue };
        let src = c.to_string();
        let out = norm(&src);
        let mut it = out.chars();
        let (first, second) = (it.next(), it.next());
        ensure!(
            first.is_some() && second.is_none(),
            "filter({c:?}) = {out:?} is not exactly one character"
        );
        let img = first.unwrap();
        ensure_eq!(norm(&out), out, "filter is not idempotent on {c:?}");
        if !TABLE_SOURCES.contains(c) {
            ensure!(img == c, "filter changes {c:?} (U+{cp:04X}) to {img:?} although it is not in its table");
        }
        if img != c {
            changed += 1;
        }
    }
    Ok(Info::new(changed > 0))
}

fn test_norm_string(s: &String) -> TestResult {
    let out = norm(s);
    ensure_eq!(out.chars().count(), s.chars().count(), "character count changes for {s:?}");
    let per_char: String = s.chars().map(|c| norm(&c.to_string())).collect();
    ensure_eq!(&out, &per_char, "filter is not character-wise on {s:?}");
    ensure_eq!(norm(&out), out, "filter is not idempotent on {s:?}");
    Ok(Info::new(out != *s).class(out != *s, "string-changed"))
}

#[derive(Clone, Debug, Serialize, Deserialize)]
struct StreamCase {
    spec: ModelSpec,
    texts: Vec<String>,
    wsconst: String,
}

fn build_filters(ws: &str) -> Vec<Box<dyn SentenceFilter>> {
    let mut v: Vec<Box<dyn SentenceFilter>> = vec![Box::new(SplitLinebreaksFilter)];
    for c in ws.chars() {
        v.push(match c {
            'D' => Box::new(KyteaWsConstFilter::new(CharacterType::Digit)),
            'R' => Box::new(KyteaWsConstFilter::new(CharacterType::Roman)),
            'H' => Box::new(KyteaWsConstFilter::new(CharacterType::Hiragana)),
            'T' => Box::new(KyteaWsConstFilter::new(CharacterType::Katakana)),
            'K' => Box::new(KyteaWsConstFilter::new(CharacterType::Kanji)),
            'O' => Box::new(KyteaWsConstFilter::new(CharacterType::Other)),
            _ => Box::new(ConcatGraphemeClustersFilter),
        });
    }
    v
}

fn collect_tokens(an: &mut TextAnalyzer, text: &str) -> Vec<Token> {
    let mut out = vec![];
    let mut ts = an.token_stream(text);
    let mut guard = 0;
    while ts.advance() {
        out.push(ts.token().clone());
        guard += 1;
        assert!(guard <= text.len() + 1, "token stream does not terminate");
    }
    out
}

fn test_stream(case: &StreamCase) -> TestResult {
    let model = case.spec.to_model()?;
    let p = Predictor::new(case.spec.to_model()?, false).map_err(|e| e.to_string())?;
    // both constructors: from a model, and (every other case) from a serialised predictor followed
    // by other bytes, which must come back as the rest
    let from_image = case.texts.len() % 2 == 0;
    let tokenizer = if from_image {
        let mut image = p.serialize_to_vec().map_err(|e| format!("serialize_to_vec: {e}"))?;
        let n = image.len();
        image.extend_from_slice(b"rest\xfb");
        let (t, rest) = unsafe { VaporettoTokenizer::deserialize_unchecked(&image, &case.wsconst) }
            .map_err(|e| format!("VaporettoTokenizer::deserialize_unchecked on a serialised predictor: {e}"))?;
        ensure_eq!(rest, &image[n..], "rest returned by VaporettoTokenizer::deserialize_unchecked");
        t
    } else {
        VaporettoTokenizer::new(model, &case.wsconst).map_err(|e| format!("VaporettoTokenizer::new: {e}"))?
    };
    let mut an = TextAnalyzer::from(tokenizer);
    let fs = build_filters(&case.wsconst);
    let mut nontrivial = false;
    let mut info = Info::default();
    for text in &case.texts {
        if text.contains('\0') {
            // known finding: token_stream unwraps Sentence::from_raw
            match engine::catch(|| collect_tokens(&mut an, text)) {
                Ok(_) => continue,
                Err(p) => return Err(fail_sig("tantivy:nul-in-text", format!("token_stream panics on a text containing U+0000: {p}"))),
            }
        }
        let toks = collect_tokens(&mut an, text);
        if text.is_empty() {
            ensure!(toks.is_empty(), "empty text yields {} tokens", toks.len());
            info = info.class(true, "empty-text");
            continue;
        }
        // expected breaks from the core pipeline
        let normalised = norm(text);
        let mut s = Sentence::from_raw(normalised.clone()).map_err(|e| e.to_string())?;
        p.predict(&mut s);
        fs.iter().for_each(|f| f.filter(&mut s));
        let labels = oracle::labels_of(&s);
        let char_starts: Vec<usize> = text.char_indices().map(|(i, _)| i).collect();
        ensure_eq!(labels.len() + 1, char_starts.len(), "normalised text has a different number of characters than {text:?}");
        let mut want_breaks: Vec<usize> = labels.iter().enumerate().filter(|(_, &l)| l == WB).map(|(i, _)| char_starts[i + 1]).collect();
        want_breaks.push(text.len());
        // tiling
        let mut pos = 0;
        let mut got_breaks = vec![];
        for (k, t) in toks.iter().enumerate() {
            ensure_eq!(t.offset_from, pos, "token {k} of {text:?}: offset_from");
            ensure!(t.offset_to > t.offset_from && t.offset_to <= text.len(), "token {k} of {text:?}: offsets {}..{}", t.offset_from, t.offset_to);
            ensure!(
                text.is_char_boundary(t.offset_from) && text.is_char_boundary(t.offset_to),
                "token {k} of {text:?}: offsets {}..{} are not on character boundaries",
                t.offset_from,
                t.offset_to
            );
            ensure_eq!(t.text.as_str(), &text[t.offset_from..t.offset_to], "token {k} of {text:?}: text is not the original substring");
            ensure_eq!(t.position, k, "token {k} of {text:?}: position");
            pos = t.offset_to;
            got_breaks.push(t.offset_to);
        }
        ensure_eq!(pos, text.len(), "tokens of {text:?} do not reach the end of the text");
        ensure_eq!(got_breaks, want_breaks, "token breaks of {text:?} (wsconst {:?}) differ from the core pipeline", case.wsconst);
        let changed = normalised != *text;
        let multibyte = text.chars().any(|c| c.len_utf8() > 1);
        nontrivial |= changed && multibyte && toks.len() >= 2;
        info = info
            .class(changed, "normaliser-changes-text")
            .class(multibyte, "multi-byte")
            .class(text.contains('\r') || text.contains('\n'), "CR/LF")
            .class(text.is_ascii() && text.contains("\r\n"), "ascii-only-with-CRLF")
            .class(toks.len() >= 2, ">=2-tokens");
    }
    info.nontrivial = nontrivial;
    Ok(info
        .class(!case.wsconst.is_empty(), "wsconst")
        .class(case.wsconst.contains('G'), "wsconst-G")
        .class(from_image, "tokenizer-from-serialised-predictor"))
}

const TEXT_POOL: &[char] = &[
    'a', 'Z', '1', '(', '.', ',', '-', '/', '%', 'ｱ', 'ｶ', 'ﾞ', '｡', '､', '～', '－', '―', '–', '─', 'あ', 'ア', '火', 'Ａ', '１',
    '\r', '\n', '𠀋', '😀', '\u{200d}', '👨', '👩', '🇯', '🇵', '\u{3099}', ' ', '"', '\'',
    // first / last scalar values of the UTF-8 lead-byte classes, Thai and Devanagari (lead 0xE0)
    '\u{7f}', '\u{80}', '\u{7ff}', '\u{800}', 'ส', 'न', '\u{fff}', '\u{1000}', '\u{d7ff}', '\u{e000}', '\u{ffff}', '\u{10000}', '\u{10ffff}',
];

/// The same text with some characters in the other width (ASCII <-> full-width forms).
fn flip_width(text: &str, salt: usize) -> String {
    text.chars()
        .enumerate()
        .map(|(k, c)| {
            if (k + salt) % 3 == 2 {
                return c;
            }
            match c as u32 {
                0x21..=0x7e => char::from_u32(c as u32 + 0xfee0).unwrap(),
                0xff01..=0xff5e => char::from_u32(c as u32 - 0xfee0).unwrap(),
                _ => c,
            }
        })
        .collect()
}

fn stream_strategy(with_nul: bool) -> impl Strategy<Value = StreamCase> {
    (
        gen::model_case(ModelCfg { allow_255: false, max_texts: 2, ..ModelCfg::BOUNDARY }),
        proptest::collection::vec(proptest::collection::vec(any::<u16>(), 0..=16), 1..=3),
        proptest::collection::vec(any::<u16>(), 0..=4),
    )
        .prop_map(move |(mc, raw, ws)| {
            let mut pal: Vec<char> = mc.texts.iter().flat_map(|t| t.chars()).collect();
            pal.sort();
            pal.dedup();
            // texts of one byte class only (every fifth): pure ASCII with CR LF pairs, the only
            // ASCII grapheme cluster of two characters
            const ASCII_POOL: &[&str] = &["a", "b", "Z", "0", "9", " ", "\r\n", "\r", "\n", "-", ".", "/", "\\", ",", "x", "\r\n"];
            let mut texts: Vec<String> = raw
                .iter()
                .map(|r| {
                    if r.first().map_or(false, |f| f % 5 == 0) {
                        return r.iter().map(|&i| ASCII_POOL[pick(i, ASCII_POOL.len())]).collect::<String>();
                    }
                    r.iter()
                        .map(|&i| {
                            if i < 36000 {
                                pal[(i as usize * pal.len()) / 36000]
                            } else if with_nul && i > 65000 {
                                '\0'
                            } else {
                                TEXT_POOL[((i as usize - 36000) * TEXT_POOL.len()) / (65536 - 36000)]
                            }
                        })
                        .collect()
                })
                .collect();
            texts.extend(mc.texts.iter().cloned());
            // one tokenizer analyses the texts in a row: follow some texts by relatives of
            // themselves (the same text again, the same text in the other character width - equal
            // after normalisation -, its normalised form, a prefix)
            let mut k = 0;
            while k < texts.len() && texts.len() < 9 {
                let t = texts[k].clone();
                let sel = ws.first().copied().unwrap_or(0) as usize + k;
                let rel: Option<String> = match sel % 6 {
                    0 => Some(t.clone()),
                    1 => Some(flip_width(&t, sel)),
                    2 => Some(norm(&t)),
                    3 => Some(t.chars().take(t.chars().count() / 2).collect()),
                    _ => None,
                };
                if let Some(r) = rel {
                    texts.insert(k + 1, r);
                    k += 1;
                }
                k += 1;
            }
            StreamCase {
                spec: mc.spec,
                texts,
                wsconst: ws.iter().map(|&i| ['D', 'R', 'H', 'T', 'K', 'O', 'G'][pick(i, 7)]).collect(),
            }
        })
}

fn main() {
    let args: Vec<String> = std::env::args().skip(1).collect();
    let ctx = engine::ctx_from_args(&args);
    engine::install_quiet_panic_hook();
    if let Err(e) = vcommon::mirror::self_test() {
        eprintln!("harness self-test failed (cannot speak the model format): {e}");
        std::process::exit(2);
    }
    if ctx.id != "C16" {
        eprintln!("vcheck-tantivy only serves C16");
        std::process::exit(2);
    }
    let mut rep = Report::new(ctx);
    // (a) normaliser: every Unicode scalar value, in blocks of 4096 code points
    rep.run_enum(
        "normaliser-all-scalars",
        "EXHAUSTIVE over all 1,112,064 Unicode scalar values (blocks of 4096 code points): \
filter(c) is exactly one character, filter(filter(c)) = filter(c), and filter(c) = c for every c \
outside the 96 source characters of the KyTea full-width table (pinned in the harness). \
Non-trivial block = contains a character the filter changes.",
        true,
        (0..0x110000u32).step_by(4096).map(|f| ScalarRange { from: f, to: (f + 4096).min(0x110000) }),
        test_scalars,
    );
    let n = rep.n(100000, 5000000);
    rep.run_prop(
        "normaliser-strings",
        "random strings (arbitrary Unicode and strings dense in table characters): same character \
count, equal to the concatenation of the per-character images, idempotent. Non-trivial = the \
string is changed.",
        n,
        || {
            prop_oneof![
                1 => any::<String>(),
                2 => proptest::collection::vec(any::<u16>(), 0..=24)
                    .prop_map(|v| v.iter().map(|&i| TEXT_POOL[pick(i, TEXT_POOL.len())]).collect::<String>()),
            ]
        },
        test_norm_string,
    );
    // (b) token stream
    let n = rep.n(30000, 1500000);
    rep.run_prop(
        "token-stream",
        "generated models x texts (empty, multi-byte, CR/LF, half-width characters the normaliser \
rewrites, ZWJ/regional-indicator clusters) x wsconst strings over {D,R,H,T,K,O,G}^0..4: tokens \
have offsets on character boundaries of the ORIGINAL text, tile it from 0 to len without gaps, \
carry the original substring and positions 0,1,2,..., and break exactly where normalise -> \
from_raw -> predict -> line-break filter -> configured filters breaks; empty text -> no tokens. \
U+0000 is excluded from this generator by construction (known finding, probed separately). \
Non-trivial = text with a character the normaliser changes, a multi-byte character and >= 2 tokens.",
        n,
        || stream_strategy(false),
        test_stream,
    );
    let long_spec = || {
        let mut spec = ModelSpec { char_window: 2, type_window: 2, bias: -3, ..ModelSpec::default() };
        spec.char_ngrams.push(vcommon::mirror::NgramSpec { ngram: "火星".into(), weights: vec![5, -5, 7] });
        spec.char_ngrams.push(vcommon::mirror::NgramSpec { ngram: "星".into(), weights: vec![1, 2, -3, 4] });
        spec.type_ngrams.push(vcommon::mirror::NgramSpec { ngram: vec![5, 4], weights: vec![2, 9, -1] });
        spec.dict.push(vcommon::mirror::WordSpec { word: "猫火".into(), weights: vec![6, -6, 6], comment: String::new() });
        spec
    };
    let mut long_cases: Vec<StreamCase> = [("", 50_000usize), ("DG", 65_536), ("O", 70_000), ("DGR", 131_080)]
        .into_iter()
        .map(|(ws, n)| {
            let pool = ['火', '星', 'ｱ', 'a', '1', '。', '𠀋', 'あ', 'ｶ', 'ﾞ', '-', '猫'];
            let text: String = (0..n)
                // (every line starts with a character of type Other, which wsconst O merges with
                // the line break in front of it)
                .map(|i| if i % 997 == 0 { '\n' } else if i % 997 == 996 { '\r' } else if i % 997 == 1 { ['。', '「', '\u{3000}'][(i / 997) % 3] } else { pool[(i * 7 + i / 11) % pool.len()] })
                .collect();
            StreamCase { spec: long_spec(), texts: vec![text], wsconst: ws.to_string() }
        })
        .collect();
    // single tokens of 65,535 / 65,536 / 65,537 / 70,000 / 210,000 bytes: runs of one character
    // type kept together by wsconst, and a model that predicts no boundary at all
    for (ws, unit, n) in [
        ("D", "1234567890", 7_000usize),
        ("R", "a", 65_535),
        ("R", "a", 65_536),
        ("R", "b", 65_537),
        ("K", "漢字", 10_923),
        ("O", "。", 21_846),
        ("T", "ｱ", 70_000),
    ] {
        let text = format!("火星猫{}円の東京特許許可局 ab 12", unit.repeat(n));
        long_cases.push(StreamCase { spec: long_spec(), texts: vec![text.clone(), format!("{text}\n{text}")], wsconst: ws.to_string() });
    }
    long_cases.push(StreamCase {
        spec: ModelSpec { char_window: 1, type_window: 1, bias: -1, ..ModelSpec::default() },
        texts: vec!["猫あa1".repeat(17_500), "x".repeat(65_536), "é".repeat(32_768)],
        wsconst: String::new(),
    });
    rep.run_enum(
        "token-stream-long-texts",
        "deterministic long texts (50,000, 65,536, 70,000 and 131,080 characters: multi-byte, \
half-width characters the normaliser rewrites, CR/LF every 997 characters) with wsconst \"\", \
\"DG\", \"O\", \"DGR\"; single tokens of 65,535 to 210,000 bytes (runs of one character type \
under the matching wsconst, a model that predicts no boundary); same oracle",
        false,
        long_cases.into_iter(),
        test_stream,
    );
    // probe of the known finding: texts containing U+0000
    rep.run_prop(
        "token-stream-nul-probe",
        "dedicated probe of known finding tantivy:nul-in-text: the same generator with U+0000 \
injected; any other failure is still a violation",
        200,
        || stream_strategy(true),
        test_stream,
    );
    rep.assume("the 96 source characters of the normaliser table are pinned from the tree at f3071fe");
    rep.assume("expected breaks are computed from library parts (normaliser, Predictor, filters), which are decided by C01/C15");
    rep.finish();
}
