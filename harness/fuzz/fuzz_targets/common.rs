// Shared by the fuzz targets: libFuzzer's bytes are decoded into the raw (index-based) generator
// structures by vcommon::bytes (hand-written, in the spirit of arbitrary::Unstructured) and
// resolved by the same pure functions the proptest strategies use; the semantic oracle of the
// owning check runs inside the target. (proptest's PassThrough RNG is not usable here: every
// union forks the stream in halves and rand's unbiased sampling loops on the zeros that follow.)

use serde::Serialize;
use vcommon::engine::TestResult;

pub fn stats(property: &str, nontrivial: bool) {
    use std::sync::atomic::{AtomicU64, Ordering};
    static N: AtomicU64 = AtomicU64::new(0);
    static NT: AtomicU64 = AtomicU64::new(0);
    let n = N.fetch_add(1, Ordering::Relaxed) + 1;
    if nontrivial {
        NT.fetch_add(1, Ordering::Relaxed);
    }
    if n % 2000 == 0 {
        if let Ok(dir) = std::env::var("VERIF_FUZZ_STATS") {
            let _ = std::fs::write(
                format!("{dir}/{property}-{}.stats", std::process::id()),
                format!("{} {}", n, NT.load(Ordering::Relaxed)),
            );
        }
    }
}

/// Runs the oracle; on failure writes the JSON replay file of the owning check and crashes so
/// that libFuzzer stops.
pub fn judge<C: Serialize>(property: &str, check: &str, case: &C, result: Result<TestResult, String>) {
    let (failed, reason, nt) = match result {
        Ok(Ok(info)) => (false, String::new(), info.nontrivial),
        Ok(Err(f)) => (true, f.msg, false),
        Err(p) => (true, format!("PANIC: {p}"), false),
    };
    stats(property, nt);
    if failed {
        let d = vcommon::engine::digest_of(case);
        let path = format!("/verif/replays/{property}-{check}-fuzz-{d:016x}.json");
        let v = serde_json::json!({"property": property, "check": check, "reason": reason, "case": case});
        let _ = std::fs::create_dir_all("/verif/replays");
        let _ = std::fs::write(&path, serde_json::to_string_pretty(&v).unwrap());
        eprintln!("FUZZ-VIOLATION property={property} replay={path}");
        eprintln!("  check={check} reason={reason}");
        std::process::abort();
    }
}
