#![no_main]
// C18: the C01/C06/C14/C15/C03/C04 oracles under AddressSanitizer + debug assertions, driven by
// libFuzzer through the byte decoder.
use libfuzzer_sys::fuzz_target;
use vcheck::checks::{c01, c03, c04, c06, c14, c15};
use vcommon::bytes::{self, Src};
use vcommon::engine;
use vcommon::gen::{self, pick};
use vcommon::oracle::RefSentence;

#[path = "common.rs"]
mod common;

fn filter_case(s: &mut Src) -> c15::FilterCase {
    const POOL: &[char] = &[
        'a', '1', 'あ', 'ア', '火', '\r', '\n', '\u{200d}', '👨', '👩', '🇯', '🇵', '\u{3099}', '\u{fe0f}', '\u{1f3fd}', '👏',
        '\u{1100}', '\u{1161}', '\u{11a8}', ' ', 'ｶ', 'ﾞ',
    ];
    let chars: Vec<char> = s.vec(1, 20, |s| POOL[pick(s.u16(), POOL.len())]);
    let n = chars.len();
    let labels = (0..n - 1).map(|_| s.u8() % 3).collect();
    let n_tags = (s.u8() % 4) as usize;
    let tags = (0..n)
        .map(|_| (0..n_tags).map(|_| if s.bool(2) { Some(format!("T{}", s.u8() % 6)) } else { None }).collect())
        .collect();
    let sentence = RefSentence { chars, labels, tags, n_tags };
    let filter = s.u8() % 9;
    let rules = s.vec(0, 3, |s| {
        let st = pick(s.u16(), n);
        let len = 1 + (s.u8() % 3) as usize;
        (
            sentence.chars[st..(st + len).min(n)].iter().collect::<String>(),
            s.vec(0, 4, |s| if s.bool(3) { None } else { Some(format!("R{}", s.u8() % 6)) }),
        )
    });
    let mut uniq: Vec<(String, Vec<Option<String>>)> = vec![];
    for r in rules {
        if !uniq.iter().any(|u| u.0 == r.0) {
            uniq.push(r);
        }
    }
    c15::FilterCase { sentence, filter, rules: uniq }
}

fuzz_target!(|data: &[u8]| {
    static INIT: std::sync::Once = std::sync::Once::new();
    INIT.call_once(engine::install_quiet_panic_hook);
    if data.len() < 2 {
        return;
    }
    let sel = data[0] % 6;
    let mut s = Src::new(&data[1..]);
    match sel {
        0 => {
            let c = gen::resolve_model(&bytes::raw_model(&mut s, false));
            common::judge("C18", "sweep-predict", &c, engine::catch(|| c01::test_case(&c)));
        }
        1 => {
            let mc = gen::resolve_model(&bytes::raw_model(&mut s, true));
            let edits = (0..3).map(|_| s.vec(0, 4, |s| (s.u16(), s.u8() % 4))).collect();
            let c = c06::TagCase { spec: mc.spec, texts: mc.texts, edits, pre: None };
            common::judge("C18", "sweep-tags", &c, engine::catch(|| c06::test_case(&c)));
        }
        2 => {
            let mc = gen::resolve_model(&bytes::raw_model(&mut s, true));
            let c = c14::SerCase { spec: mc.spec, texts: mc.texts, trailing: s.vec(0, 16, |s| s.u8()) };
            common::judge("C18", "sweep-serialize", &c, engine::catch(|| c14::test_case(&c)));
        }
        3 => {
            let c = filter_case(&mut s);
            common::judge("C18", "sweep-filters", &c, engine::catch(|| c15::test_case(&c)));
        }
        4 => {
            let mut c = gen::resolve_sentence(&bytes::raw_sentence(&mut s, 24, 2), false);
            c.labels.iter_mut().for_each(|l| if *l == 2 { *l = 0 });
            common::judge("C18", "sweep-tokenized-writer", &c, engine::catch(|| c03::roundtrip(&c)));
        }
        _ => {
            let c = gen::resolve_sentence(&bytes::raw_sentence(&mut s, 24, 3), true);
            common::judge("C18", "sweep-partial-writer", &c, engine::catch(|| c04::roundtrip(&c)));
        }
    }
});
