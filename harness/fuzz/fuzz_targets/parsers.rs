#![no_main]
// C05: the fuzzer's bytes as the input string (lossy UTF-8) for all six entry points, and as a
// short history of update/reset calls; oracle = c05::test_string / c05::test_history.
use libfuzzer_sys::fuzz_target;
use vcheck::checks::c05::{self, Fmt, History, Op};
use vcommon::engine;

#[path = "common.rs"]
mod common;

fuzz_target!(|data: &[u8]| {
    static INIT: std::sync::Once = std::sync::Once::new();
    INIT.call_once(engine::install_quiet_panic_hook);
    if data.is_empty() {
        return;
    }
    let (sel, rest) = (data[0] % 4, &data[1..]);
    if sel < 3 {
        let s = String::from_utf8_lossy(rest).to_string();
        common::judge("C05", "strings", &s, engine::catch(|| c05::test_string(&s)));
    } else {
        // history: the bytes are split at 0xFF into operations; the first byte of each part
        // selects the operation
        let mut ops = vec![];
        for part in rest.split(|&b| b == 0xFF).take(8) {
            let Some((&k, body)) = part.split_first() else { continue };
            let x = String::from_utf8_lossy(body).to_string();
            ops.push(match k % 4 {
                0 => Op::Update(Fmt::Raw, x),
                1 => Op::Update(Fmt::Tokenized, x),
                2 => Op::Update(Fmt::Partial, x),
                _ => Op::ResetTags((k / 4) as usize % 5),
            });
        }
        if ops.is_empty() {
            return;
        }
        let h = History { start: None, ops };
        common::judge("C05", "histories", &h, engine::catch(|| c05::test_history(&h)));
    }
});
