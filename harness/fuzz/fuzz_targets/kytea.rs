#![no_main]
// C17: libFuzzer mutates the bytes behind the STRUCTURED KyTea model generator (never raw
// garbage: arbitrary corrupt files are outside the property); oracle = c17::test_file.
use libfuzzer_sys::fuzz_target;
use vcheck::checks::c17;
use vcommon::bytes::{self, Src};
use vcommon::{engine, kytea};

#[path = "common.rs"]
mod common;

fuzz_target!(|data: &[u8]| {
    static INIT: std::sync::Once = std::sync::Once::new();
    INIT.call_once(engine::install_quiet_panic_hook);
    let c = kytea::resolve_kytea(&bytes::raw_kytea(&mut Src::new(data)));
    common::judge("C17", "generated-files", &c, engine::catch(|| c17::test_file(&c.file, &c.texts, true)));
});
