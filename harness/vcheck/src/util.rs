//! Helpers shared by the checks: building predictors, observing sentences.

use vaporetto::{Predictor, Sentence};
use vcommon::mirror::ModelSpec;
use vcommon::oracle;

pub fn predictor(spec: &ModelSpec, predict_tags: bool) -> Result<Predictor, String> {
    let model = spec.to_model()?;
    Predictor::new(model, predict_tags).map_err(|e| format!("Predictor::new: {e}"))
}

pub fn chars(s: &str) -> Vec<char> {
    s.chars().collect()
}

/// A partial-annotation string over `text` with a deterministic label/tag pattern, used to start
/// prediction from an annotated sentence ("overwriting any earlier annotation").
pub fn partial_annotation_of(text: &str, salt: usize) -> String {
    let mut out = String::new();
    for (i, c) in text.chars().enumerate() {
        if i > 0 {
            out.push(match (i + salt) % 3 {
                0 => ' ',
                1 => '-',
                _ => '|',
            });
        }
        out.push(c);
        if (i + salt) % 4 == 0 {
            out.push_str("/T");
        }
    }
    out
}

pub fn scores_i64(s: &Sentence) -> Vec<i64> {
    s.boundary_scores().iter().map(|&x| x as i64).collect()
}

pub fn labels(s: &Sentence) -> Vec<u8> {
    oracle::labels_of(s)
}

pub fn flat_tags(s: &Sentence) -> Vec<Option<String>> {
    s.tags().iter().map(|t| t.as_ref().map(|c| c.to_string())).collect()
}
