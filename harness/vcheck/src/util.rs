//! Helpers shared by the checks: building predictors, observing sentences.

use vaporetto::{Predictor, Sentence};
use vcommon::mirror::ModelSpec;
use vcommon::oracle;

pub fn predictor(spec: &ModelSpec, predict_tags: bool) -> Result<Predictor, String> {
    let model = spec.to_model()?;
    Predictor::new(model, predict_tags).map_err(|e| format!("Predictor::new: {e}"))
}

pub fn chars(s: &str) -> Vec<char> {
    s.chars().collect()
}

/// A partial-annotation string over `text` with a deterministic label/tag pattern, used to start
/// prediction from an annotated sentence ("overwriting any earlier annotation").
pub fn partial_annotation_of(text: &str, salt: usize) -> String {
    let mut out = String::new();
    for (i, c) in text.chars().enumerate() {
        if i > 0 {
            out.push(match (i + salt) % 3 {
                0 => ' ',
                1 => '-',
                _ => '|',
            });
        }
        out.push(c);
        if (i + salt) % 4 == 0 {
            out.push_str("/T");
        }
    }
    out
}

pub fn scores_i64(s: &Sentence) -> Vec<i64> {
    s.boundary_scores().iter().map(|&x| x as i64).collect()
}

pub fn labels(s: &Sentence) -> Vec<u8> {
    oracle::labels_of(s)
}

pub fn flat_tags(s: &Sentence) -> Vec<Option<String>> {
    s.tags().iter().map(|t| t.as_ref().map(|c| c.to_string())).collect()
}

/// Everything observable on a sentence through the public API (no predictor involved).
#[derive(Clone, Debug, PartialEq, Eq, serde::Serialize)]
pub struct Obs {
    pub text: String,
    pub char_types: Vec<u8>,
    pub labels: Vec<u8>,
    pub n_tags: usize,
    pub tags: Vec<Option<String>>,
    pub scores: Vec<i32>,
    pub tokens: Vec<(usize, usize, String, Vec<Option<String>>)>,
    pub tokenized: String,
    pub partial: String,
}

/// Runs every accessor, both writers and the token iterator. Panics propagate to the caller
/// (the engine turns them into failures).
pub fn observe(s: &Sentence) -> Obs {
    let text = s.as_raw_text().to_string();
    let n = text.chars().count();
    let mut tokens = vec![];
    for (k, t) in s.iter_tokens().enumerate() {
        assert!(k <= n, "token iterator does not terminate");
        tokens.push((
            t.start(),
            t.end(),
            t.surface().to_string(),
            t.tags().iter().map(|x| x.as_ref().map(|c| c.to_string())).collect(),
        ));
    }
    let mut tokenized = String::from("stale");
    s.write_tokenized_text(&mut tokenized);
    assert!(std::str::from_utf8(tokenized.as_bytes()).is_ok(), "tokenized writer produced invalid UTF-8");
    let mut partial = String::from("stale");
    s.write_partial_annotation_text(&mut partial);
    Obs {
        text,
        char_types: s.char_types().to_vec(),
        labels: labels(s),
        n_tags: s.n_tags(),
        tags: flat_tags(s),
        scores: s.boundary_scores().to_vec(),
        tokens,
        tokenized,
        partial,
    }
}

/// Structural consistency of an observation with its own text.
pub fn check_consistent(o: &Obs) -> Result<(), String> {
    let cs: Vec<char> = o.text.chars().collect();
    if cs.is_empty() {
        return Err("empty raw text".into());
    }
    if o.char_types != oracle::types_of(&cs) {
        return Err(format!("char_types {:?} do not describe text {:?}", o.char_types, o.text));
    }
    if o.labels.len() != cs.len() - 1 {
        return Err(format!("{} labels for {} characters", o.labels.len(), cs.len()));
    }
    if o.tags.len() != cs.len() * o.n_tags {
        return Err(format!(
            "tags.len() = {} but chars x n_tags = {} x {}",
            o.tags.len(),
            cs.len(),
            o.n_tags
        ));
    }
    Ok(())
}

/// Redirects the process's stderr to a log file while training runs (liblinear and the tag
/// trainer print progress there); returns a guard that restores it.
pub struct FdGuard {
    fd: i32,
    saved: i32,
}

/// Redirects stdout and stderr (liblinear prints to stdout through C stdio).
pub fn redirect_output(log: &str) -> Vec<FdGuard> {
    [1, 2].into_iter().filter_map(|fd| redirect_fd(fd, &format!("{log}.{fd}"))).collect()
}

pub fn redirect_fd(target: i32, log: &str) -> Option<FdGuard> {
    use std::os::unix::io::IntoRawFd;
    let f = std::fs::OpenOptions::new().create(true).write(true).truncate(true).open(log).ok()?;
    let fd = f.into_raw_fd();
    unsafe {
        use std::io::Write;
        let _ = std::io::stdout().flush();
        let saved = libc::dup(target);
        if saved < 0 {
            libc::close(fd);
            return None;
        }
        libc::dup2(fd, target);
        libc::close(fd);
        Some(FdGuard { fd: target, saved })
    }
}

impl Drop for FdGuard {
    fn drop(&mut self) {
        unsafe {
            use std::io::Write;
            let _ = std::io::stdout().flush();
            libc::fflush(std::ptr::null_mut());
            libc::dup2(self.saved, self.fd);
            libc::close(self.saved);
        }
    }
}

// ------------------------------------------------------------------------------------------
// command-line tools

pub const BIN_DIR: &str = "/verif/target/repo-bins/release";

pub fn zstd_encode(bytes: &[u8]) -> Vec<u8> {
    zstd::encode_all(bytes, 3).expect("zstd encode")
}

pub fn zstd_decode(bytes: &[u8]) -> Result<Vec<u8>, String> {
    zstd::decode_all(bytes).map_err(|e| format!("zstd decode: {e}"))
}

/// A scratch directory under /verif/target/tmp that is removed on drop.
pub struct Scratch(pub std::path::PathBuf);

impl Scratch {
    pub fn new(tag: &str) -> Self {
        static N: std::sync::atomic::AtomicU64 = std::sync::atomic::AtomicU64::new(0);
        let n = N.fetch_add(1, std::sync::atomic::Ordering::Relaxed);
        let p = std::path::PathBuf::from(format!("/verif/target/tmp/{tag}-{}-{n}", std::process::id()));
        let _ = std::fs::create_dir_all(&p);
        Scratch(p)
    }
    pub fn path(&self, name: &str) -> std::path::PathBuf {
        self.0.join(name)
    }
}

impl Drop for Scratch {
    fn drop(&mut self) {
        let _ = std::fs::remove_dir_all(&self.0);
    }
}

pub struct RunOut {
    pub code: Option<i32>,
    pub stdout: Vec<u8>,
    pub stderr: String,
}

/// Runs one of the repository's tools with stdin bytes; kills it after 60 s.
pub fn run_tool(bin: &str, args: &[String], stdin: &[u8]) -> Result<RunOut, String> {
    use std::io::Write;
    use std::process::{Command, Stdio};
    let mut child = Command::new(format!("{BIN_DIR}/{bin}"))
        .args(args)
        .stdin(Stdio::piped())
        .stdout(Stdio::piped())
        .stderr(Stdio::piped())
        .spawn()
        .map_err(|e| format!("cannot spawn {bin}: {e}"))?;
    let mut sin = child.stdin.take().unwrap();
    let data = stdin.to_vec();
    let w = std::thread::spawn(move || {
        let _ = sin.write_all(&data);
    });
    let out = child.wait_with_output().map_err(|e| format!("wait {bin}: {e}"))?;
    let _ = w.join();
    Ok(RunOut {
        code: out.status.code(),
        stdout: out.stdout,
        stderr: String::from_utf8_lossy(&out.stderr).to_string(),
    })
}

/// liblinear draws from C `rand()`, a process-wide generator. Training is therefore serialised
/// under a global lock and the generator is re-seeded before every call, which makes every
/// training - and with it every replay of a training case - a pure function of its inputs.
pub fn train_deterministic<R>(f: impl FnOnce() -> R) -> R {
    static LOCK: std::sync::Mutex<()> = std::sync::Mutex::new(());
    let _g = LOCK.lock().unwrap_or_else(|e| e.into_inner());
    unsafe { libc::srand(1) };
    f()
}

/// A healthy writer that accepts at most `chunk` bytes per `write` call (what pipes, sockets and
/// compressors do): callers must loop (`write_all`).
pub struct ShortWriter {
    pub written: Vec<u8>,
    pub chunk: usize,
}

impl std::io::Write for ShortWriter {
    fn write(&mut self, buf: &[u8]) -> std::io::Result<usize> {
        let n = buf.len().min(self.chunk.max(1));
        self.written.extend_from_slice(&buf[..n]);
        Ok(n)
    }
    fn flush(&mut self) -> std::io::Result<()> {
        Ok(())
    }
}

/// Output paths of the shipped programs are not always fresh: puts a longer, unrelated file
/// where the program is about to write (a program that opens its output without truncating
/// leaves the old tail behind).
pub fn prefill(path: &std::path::Path, salt: usize) {
    let line = b"stale,1 2 3,left over from an earlier run\n";
    let n = 200 + (salt % 7) * 4000;
    let mut data = Vec::with_capacity(n * line.len());
    for _ in 0..n {
        data.extend_from_slice(line);
    }
    let _ = std::fs::write(path, data);
}
