//! C12 — Tag models reflect exactly the tags seen in training.

use std::collections::{BTreeMap, HashMap};

use vaporetto::verif_hooks::{self, HookFeature};
use vaporetto::{Predictor, Sentence, Trainer};
use vcommon::engine::{Info, Report, TestResult};
use vcommon::mirror::ModelSpec;
use vcommon::oracle::{self, NB, WB};
use vcommon::train::{self, TrainCase, TrainGenCfg};
#[allow(unused_imports)]
use vcommon::{ensure, ensure_eq};

use crate::util;

/// What the reference saw for one token.
#[derive(Default, Debug, Clone)]
struct Seen {
    /// per category: distinct tags in order of first appearance
    cands: Vec<Vec<String>>,
    any_present: bool,
}

fn observe_corpus(case: &TrainCase) -> (BTreeMap<String, Seen>, BTreeMap<String, Seen>) {
    let mut corpus: BTreeMap<String, Seen> = BTreeMap::new();
    for r in &case.corpus {
        if r.n_tags == 0 {
            continue; // tokens of untagged sentences carry no tag information
        }
        for t in oracle::ref_tokens(&r.labels) {
            let surface: String = r.chars[t.start..t.end].iter().collect();
            let e = corpus.entry(surface).or_default();
            if e.cands.len() < r.n_tags {
                e.cands.resize(r.n_tags, vec![]);
            }
            for j in 0..r.n_tags {
                if let Some(tag) = r.tags[t.end - 1].get(j).cloned().flatten() {
                    e.any_present = true;
                    if !e.cands[j].contains(&tag) {
                        e.cands[j].push(tag);
                    }
                }
            }
        }
    }
    let mut dict: BTreeMap<String, Seen> = BTreeMap::new();
    for r in &case.tag_dict {
        for t in oracle::ref_tokens(&r.labels) {
            let surface: String = r.chars[t.start..t.end].iter().collect();
            if dict.contains_key(&surface) {
                continue; // the first dictionary entry of a token counts
            }
            let mut e = Seen::default();
            e.cands.resize(r.n_tags, vec![]);
            for j in 0..r.n_tags {
                if let Some(tag) = r.tags[t.end - 1].get(j).cloned().flatten() {
                    e.any_present = true;
                    e.cands[j].push(tag);
                }
            }
            dict.insert(surface, e);
        }
    }
    (corpus, dict)
}

fn sorted(v: &[String]) -> Vec<String> {
    let mut v = v.to_vec();
    v.sort();
    v
}

/// Clause (1): the model lists per token and category exactly the distinct tags observed.
fn check_candidate_lists(
    spec: &ModelSpec,
    corpus: &BTreeMap<String, Seen>,
    dict: &BTreeMap<String, Seen>,
) -> Result<BTreeMap<String, Seen>, vcommon::engine::Fail> {
    let mut expected: BTreeMap<String, Seen> = BTreeMap::new();
    for (tok, seen) in corpus {
        if seen.any_present {
            expected.insert(tok.clone(), seen.clone());
        }
    }
    for (tok, seen) in dict {
        // "or only in the tag dictionary": tokens that also occur in tagged corpus sentences
        // (even without any present tag there) are left to the corpus
        if seen.any_present && !corpus.contains_key(tok) {
            expected.insert(tok.clone(), seen.clone());
        }
    }
    let mut tokens_seen = std::collections::BTreeSet::new();
    for tm in &spec.tag_models {
        ensure!(tokens_seen.insert(tm.token.clone()), "token {:?} has two tag models", tm.token);
        match expected.get(&tm.token) {
            Some(seen) => {
                ensure_eq!(tm.tags.len(), seen.cands.len(), "number of tag categories of token {:?}", tm.token);
                let mut n_class = 0;
                for (c, cands) in tm.tags.iter().enumerate() {
                    let mut dedup = cands.clone();
                    dedup.sort();
                    dedup.dedup();
                    ensure_eq!(dedup.len(), cands.len(), "token {:?} category {c} lists a tag twice: {cands:?}", tm.token);
                    ensure_eq!(
                        sorted(cands),
                        sorted(&seen.cands[c]),
                        "token {:?} category {c}: model candidates vs tags observed in training",
                        tm.token
                    );
                    if cands.len() >= 2 {
                        n_class += cands.len();
                    }
                }
                ensure_eq!(tm.bias.len(), n_class, "score vector size of token {:?}", tm.token);
                for g in &tm.char_ngrams {
                    for tw in &g.weights {
                        ensure_eq!(tw.weights.len(), n_class, "tag weight vector size of token {:?}", tm.token);
                    }
                }
                for g in &tm.type_ngrams {
                    for tw in &g.weights {
                        ensure_eq!(tw.weights.len(), n_class, "tag weight vector size of token {:?}", tm.token);
                    }
                }
            }
            None => {
                // a token that was never seen with a present tag may be listed only without
                // any candidate (it then predicts nothing)
                ensure!(
                    corpus.contains_key(&tm.token) || dict.contains_key(&tm.token),
                    "model has a tag model for token {:?} that never occurred in training",
                    tm.token
                );
                ensure!(
                    tm.tags.iter().all(|c| c.is_empty()),
                    "token {:?} was never seen with a tag but the model lists {:?}",
                    tm.token,
                    tm.tags
                );
            }
        }
    }
    for tok in expected.keys() {
        ensure!(tokens_seen.contains(tok), "token {tok:?} was seen with tags but has no tag model");
    }

    Ok(expected)
}

pub fn test_case(case: &TrainCase) -> TestResult {
    let cfg = &case.cfg;
    let has_wb = case.corpus.iter().any(|r| r.labels.contains(&WB));
    let has_nb = case.corpus.iter().any(|r| r.labels.contains(&NB));
    if !(has_wb && has_nb) {
        return Ok(Info::new(false).class(true, "skipped:single-class-corpus"));
    }
    let sentences: Vec<Sentence<'static, 'static>> =
        case.corpus.iter().map(|r| r.to_sentence()).collect::<Result<_, _>>()?;
    let tag_dict: Vec<Sentence<'static, 'static>> =
        case.tag_dict.iter().map(|r| r.to_sentence()).collect::<Result<_, _>>()?;
    let mut trainer = match Trainer::new(
        cfg.charw, cfg.charn, cfg.typew, cfg.typen, cfg.dict.clone(), cfg.dictn, &tag_dict,
    ) {
        Ok(t) => t,
        Err(_) => return Ok(Info::new(false).class(true, "skipped:trainer-rejected-configuration")),
    };
    for s in &sentences {
        trainer.add_example(s);
    }
    let _ = verif_hooks::take_train_record();
    let model = match util::train_deterministic(|| trainer.train(0.01, 1.0, train::solver_of(cfg.solver))) {
        Ok(m) => m,
        Err(_) => return Ok(Info::new(false).class(true, "skipped:train-returned-error")),
    };
    let rec = verif_hooks::take_train_record();
    let spec = ModelSpec::from_model(&model)?;
    let (corpus, dict) = observe_corpus(case);

    let expected = check_candidate_lists(&spec, &corpus, &dict)?;

    // ---- recorded classifiers by (token, category)
    struct Clf {
        cands: Vec<String>,
        bias: HashMap<usize, i64>,
        w: HashMap<(HookFeature, usize), i64>,
    }
    let mut clfs: HashMap<(String, usize), Clf> = HashMap::new();
    for r in &rec.tag_classifiers {
        let mut c = Clf { cands: r.candidates.clone(), bias: HashMap::new(), w: HashMap::new() };
        for (cls, b) in &r.biases {
            c.bias.insert(*cls, *b as i64);
        }
        for (f, cls, w) in &r.weights {
            c.w.insert((f.clone(), *cls), *w as i64);
        }
        clfs.insert((r.token.clone(), r.category), c);
    }

    // ---- the feature universe of every recorded classifier equals the reference tag features
    // of the training occurrences of that token which carry a tag in that category
    for ((tok, c), clf) in &clfs {
        let mut want: std::collections::BTreeSet<HookFeature> = Default::default();
        for r in &case.corpus {
            if r.n_tags == 0 {
                continue;
            }
            for t in oracle::ref_tokens(&r.labels) {
                let surface: String = r.chars[t.start..t.end].iter().collect();
                if &surface != tok || r.tags[t.end - 1].get(*c).cloned().flatten().is_none() {
                    continue;
                }
                want.extend(train::ref_tag_features(cfg, &r.chars, t.start, t.end));
            }
        }
        let got: std::collections::BTreeSet<HookFeature> = clf.w.keys().map(|(f, _)| f.clone()).collect();
        ensure_eq!(
            got,
            want,
            "features of the classifier of token {tok:?} category {c} vs the documented tag features of its training occurrences (cfg {cfg:?})"
        );
    }

    // ---- behaviour on evaluation sentences
    let mut p = Predictor::new(model, true).map_err(|e| format!("Predictor::new(model, true): {e}"))?;
    p.store_tag_scores(true);
    // corpus sentences are evaluated twice: as raw text, and as the annotated sentence itself
    // (gold tags still on it, as `evaluate --no-norm --predict-tags` does) - fill_tags must
    // replace every earlier tag
    let mut evals: Vec<(Vec<char>, Option<Vec<u8>>, Option<&vcommon::oracle::RefSentence>)> = vec![];
    for r in &case.corpus {
        evals.push((r.chars.clone(), Some(r.labels.clone()), None));
        evals.push((r.chars.clone(), Some(r.labels.clone()), Some(r)));
        // ... and with all boundaries set (single-character tokens, mostly unseen), so that
        // tokens without a tag model end on characters that carried gold tags
        evals.push((r.chars.clone(), Some(vec![1; r.labels.len()]), Some(r)));
    }
    for t in &case.eval {
        evals.push((t.chars().collect(), None, None));
    }
    let mut ambiguous_scored = false;
    let mut nonzero_tag_weight = false;
    let mut unseen_token = false;
    let mut dict_only_token = false;
    for (chars, labels, annotated) in &evals {
        let text: String = chars.iter().collect();
        let mut s = match annotated {
            Some(r) => r.to_sentence()?,
            None => Sentence::from_raw(text.clone()).map_err(|e| e.to_string())?,
        };
        p.predict(&mut s);
        if let Some(ls) = labels {
            for (b, &l) in s.boundaries_mut().iter_mut().zip(ls) {
                *b = oracle::boundary_of(l);
            }
        }
        s.fill_tags();
        let n_tags = s.n_tags();
        ensure_eq!(n_tags, spec.n_tags(), "n_tags after fill_tags");
        for tok in s.iter_tokens() {
            let surface = tok.surface().to_string();
            let tags: Vec<Option<String>> = tok.tags().iter().map(|t| t.as_ref().map(|c| c.to_string())).collect();
            let cands = tok.tag_candidates();
            match expected.get(&surface) {
                None => {
                    ensure!(
                        tags.iter().all(|t| t.is_none()),
                        "token {surface:?} was never seen with tags but is given {tags:?}"
                    );
                    unseen_token = true;
                }
                Some(seen) => {
                    dict_only_token |= !corpus.contains_key(&surface);
                    for c in 0..n_tags {
                        let observed: &[String] = seen.cands.get(c).map_or(&[], |v| &v[..]);
                        match observed.len() {
                            0 => ensure!(tags[c].is_none(), "token {surface:?} category {c}: no tag seen but given {:?}", tags[c]),
                            1 => ensure_eq!(tags[c].as_ref(), Some(&observed[0]), "token {surface:?} category {c}: single observed tag"),
                            _ => {
                                let t = tags[c].as_ref().ok_or_else(|| format!("token {surface:?} category {c}: several tags seen but none given"))?;
                                ensure!(observed.contains(t), "token {surface:?} category {c}: given {t:?}, observed {observed:?}");
                                // score clause
                                let clf = clfs.get(&(surface.clone(), c)).ok_or_else(|| {
                                    format!("hook recorded no classifier for token {surface:?} category {c}")
                                })?;
                                let feats = train::ref_tag_features(cfg, chars, tok.start(), tok.end());
                                let got: &Vec<(&str, i32)> = cands.get(c).ok_or_else(|| format!("tag_candidates of {surface:?} has no category {c}"))?;
                                ensure_eq!(got.len(), observed.len(), "candidate count of {surface:?} category {c}");
                                for (name, score) in got {
                                    let cls = clf.cands.iter().position(|x| x == name).ok_or_else(|| {
                                        format!("candidate {name:?} of {surface:?} unknown to the recorded classifier")
                                    })?;
                                    let mut want = *clf.bias.get(&cls).unwrap_or(&0);
                                    for f in &feats {
                                        if let Some(w) = clf.w.get(&(f.clone(), cls)) {
                                            want += *w;
                                            nonzero_tag_weight |= *w != 0;
                                        }
                                    }
                                    ensure_eq!(
                                        *score as i64,
                                        want,
                                        "stored score of candidate {name:?} of token {surface:?} ({}..{}) in {text:?}, category {c} (cfg {cfg:?})",
                                        tok.start(),
                                        tok.end()
                                    );
                                }
                                ambiguous_scored = true;
                            }
                        }
                    }
                }
            }
        }
    }
    let nontrivial = expected.values().any(|s| {
        s.cands.iter().any(|c| c.len() >= 2) && s.cands.iter().any(|c| c.len() == 1)
    });
    Ok(Info::new(nontrivial)
        .class(true, "trained")
        .class(ambiguous_scored, "ambiguous-category-scored")
        .class(nonzero_tag_weight, "non-zero-tag-weight-applied")
        .class(unseen_token, "unseen-token-in-evaluation")
        .class(dict_only_token, "dictionary-only-token-in-evaluation")
        .class(expected.values().any(|s| s.cands.len() > 2), ">2-categories")
        .class(case.corpus.iter().any(|r| r.labels.contains(&2) && r.n_tags > 0), "partial-annotation-source")
        .class(cfg.charn > cfg.charw || cfg.typen > cfg.typew, "n>window")
        .class(cfg.charw == 0 || cfg.typew == 0, "window=0"))
}

/// Clause (1) through the shipped `train` program: the corpus and the tag dictionary are written
/// to files (LF or CR LF line ends, with and without --no-norm) and the candidate lists of the
/// model file it writes are compared with the same reference reading of the corpus.
pub fn test_tool(case: &TrainCase) -> TestResult {
    use vaporetto_rules::string_filters::KyteaFullwidthFilter;
    use vaporetto_rules::StringFilter;
    use vcommon::oracle::{RefSentence, UNK};
    let cfg = &case.cfg;
    let line_break_in = |r: &RefSentence| {
        r.chars.iter().any(|&c| c == '\n' || c == '\r')
            || r.tags.iter().flatten().flatten().any(|t| t.contains('\n') || t.contains('\r'))
    };
    if case.corpus.iter().chain(&case.tag_dict).any(line_break_in) {
        return Ok(Info::new(false).class(true, "skipped:line-break-inside-a-sentence(not representable in a corpus file)"));
    }
    let crlf = cfg.solver % 2 == 0;
    let no_norm = cfg.dictn % 2 == 0;
    let eol = if crlf { "\r\n" } else { "\n" };
    let dir = util::Scratch::new("c12");
    let (ftok, fpart, fdict, fmodel) = (dir.path("c.tok"), dir.path("c.part"), dir.path("d.txt"), dir.path("m.zst"));
    let (mut tok, mut part, mut dict) = (String::new(), String::new(), String::new());
    for r in &case.corpus {
        if r.labels.contains(&UNK) {
            part.push_str(&oracle::ref_write_partial(r));
            part.push_str(eol);
        } else {
            tok.push_str(&oracle::ref_write_tokenized(r));
            tok.push_str(eol);
        }
    }
    for r in &case.tag_dict {
        dict.push_str(&oracle::ref_write_tokenized(r));
        dict.push_str(eol);
    }
    if tok.is_empty() && part.is_empty() {
        return Ok(Info::new(false).class(true, "skipped:empty-corpus"));
    }
    let mut args: Vec<String> = vec![];
    for (flag, path, content) in [("--tok", &ftok, &tok), ("--part", &fpart, &part), ("--dict", &fdict, &dict)] {
        if !content.is_empty() {
            std::fs::write(path, content).map_err(|e| e.to_string())?;
            args.push(flag.into());
            args.push(path.to_string_lossy().to_string());
        }
    }
    for (flag, v) in [("--charw", cfg.charw), ("--charn", cfg.charn), ("--typew", cfg.typew), ("--typen", cfg.typen), ("--dictn", cfg.dictn.max(1)), ("--solver", cfg.solver % 8)] {
        args.push(flag.into());
        args.push(v.to_string());
    }
    if no_norm {
        args.push("--no-norm".into());
    }
    args.push("--model".into());
    args.push(fmodel.to_string_lossy().to_string());
    if args.len() % 2 == 0 {
        util::prefill(&fmodel, args.len());
    }
    let r = util::run_tool("train", &args, b"")?;
    ensure!(!r.stderr.contains("panicked"), "train crashed: {}", r.stderr.lines().find(|l| l.contains("panicked")).unwrap_or(""));
    if r.code != Some(0) {
        return Ok(Info::new(false).class(true, "skipped:train-exits-with-error"));
    }
    let raw = util::zstd_decode(&std::fs::read(&fmodel).map_err(|e| format!("no model file: {e}"))?)?;
    let (model, _) = vaporetto::Model::read_slice(&raw).map_err(|e| format!("model written by train: {e}"))?;
    let spec = ModelSpec::from_model(&model)?;
    // the reference reads the corpus the way the program is documented to: normalised unless
    // --no-norm (the normaliser maps character to character), words of the --dict file are
    // the tag dictionary
    let norm = |r: &RefSentence| -> RefSentence {
        let mut r = r.clone();
        if !no_norm {
            r.chars = KyteaFullwidthFilter.filter(&r.text()).chars().collect();
        }
        // a corpus line carries as many tag columns as its longest tag list: trailing absent
        // tags are not written, so a sentence whose tags are all absent is an untagged line
        // (the tokenized format writes the tags of a token's last character only; the partial
        // annotation format those of every character)
        let partial = r.labels.contains(&UNK);
        let ends: std::collections::BTreeSet<usize> = oracle::ref_tokens(&r.labels).iter().map(|t| t.end - 1).collect();
        r.n_tags = r
            .tags
            .iter()
            .enumerate()
            .filter(|(i, _)| partial || ends.contains(i))
            .map(|(_, t)| t.iter().rposition(|x| x.is_some()).map_or(0, |p| p + 1))
            .max()
            .unwrap_or(0);
        for t in r.tags.iter_mut() {
            t.truncate(r.n_tags);
        }
        r
    };
    let seen_case = TrainCase {
        cfg: cfg.clone(),
        corpus: case.corpus.iter().map(norm).collect(),
        tag_dict: case.tag_dict.iter().map(norm).collect(),
        eval: vec![],
    };
    let (corpus, dictseen) = observe_corpus(&seen_case);
    let expected = check_candidate_lists(&spec, &corpus, &dictseen).map_err(|e| {
        vcommon::engine::Fail::from(format!("model written by train ({} line ends{}): {}", if crlf { "CR LF" } else { "LF" }, if no_norm { ", --no-norm" } else { "" }, e.msg))
    })?;
    Ok(Info::new(expected.values().any(|s| s.cands.iter().any(|c| c.len() >= 2)))
        .class(crlf, "CRLF-corpus-files")
        .class(no_norm, "--no-norm")
        .class(!dict.is_empty(), "--dict")
        .class(!part.is_empty(), "--part"))
}

pub fn run(rep: &mut Report) {
    liblinear::toggle_liblinear_stdout_output(false);
    let _guard = util::redirect_output("/verif/target/C12-train-output.log");
    rep.run_enum(
        "long-words",
        "the long-token corpora of C11 (a token of 127 / 255 / 256 / 257 / 300 characters that is a \
dictionary word and an ambiguous tagged token, buckets 1 / 4 / 255): same oracle",
        false,
        [127usize, 255, 256, 257, 300].into_iter().enumerate().flat_map(|(k, l)| [crate::checks::c11::long_word_case(l, k), crate::checks::c11::long_word_case(l, k + 1)]),
        |c: &TrainCase| test_case(c).map(|mut i| { i.nontrivial = true; i }),
    );
    let n = rep.n(15000, 750000);
    rep.run_prop(
        "tag-models",
        "generated tagged corpora (tokens with 0-3 categories, absent tags, ambiguous tags, \
partially annotated sentences, untagged sentences) + tag dictionaries x n-gram/window sizes x \
solvers: (1) the mirror-decoded model lists per token and category exactly the distinct tags \
observed (duplicate-free, set-equal), with bias/weight vectors sized to the trainable classes, \
and no model for tokens never seen; (2) on corpus and fresh evaluation sentences a single \
observed tag is always given, several -> one of them, unseen token -> none; (3) every stored \
candidate score equals the recorded quantised classifier (hook) applied to the reference tag \
features. Non-trivial = a token with >= 2 observed tags in one category and exactly one in another.",
        n,
        || {
            use proptest::prelude::*;
            prop_oneof![
                1 => train::train_case(TrainGenCfg { max_sentences: 6, max_len: 8, tame: false, tag_dict: true, tag_focus: false }),
                3 => train::train_case(TrainGenCfg { max_sentences: 8, max_len: 8, tame: false, tag_dict: true, tag_focus: true }),
            ]
        },
        test_case,
    );
    let n = rep.n(1500, 40000);
    rep.run_prop(
        "train-tool",
        "the same generated corpora and tag dictionaries written to files with LF or CR LF line \
ends and trained by the shipped train program (with and without --no-norm): the candidate lists \
of the model file it writes equal the reference reading of the (normalised) corpus - clause (1). \
Non-trivial = a token with >= 2 observed tags in a category.",
        n,
        || {
            use proptest::prelude::*;
            (
                prop_oneof![
                    1 => train::train_case(TrainGenCfg { max_sentences: 6, max_len: 8, tame: false, tag_dict: true, tag_focus: false }),
                    3 => train::train_case(TrainGenCfg { max_sentences: 8, max_len: 8, tame: false, tag_dict: true, tag_focus: true }),
                ],
                any::<u16>(),
            )
                .prop_map(|(c, salt)| if salt % 2 == 0 { train::with_whitespace_tokens(c, salt) } else { c })
        },
        test_tool,
    );
    rep.assume("a token that occurs in tagged corpus sentences without any present tag AND in the tag dictionary is left unspecified (the property speaks of tokens seen with tags, or only in the dictionary)");
}
