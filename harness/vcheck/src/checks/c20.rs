//! C20 — Command-line tools agree with the library, line by line.

use proptest::prelude::*;
use serde::{Deserialize, Serialize};
use vaporetto::{CharacterType, Predictor, Sentence};
use vaporetto_rules::sentence_filters::{ConcatGraphemeClustersFilter, KyteaWsConstFilter};
use vaporetto_rules::string_filters::KyteaFullwidthFilter;
use vaporetto_rules::{SentenceFilter, StringFilter};
use vcommon::engine::{Info, Report, TestResult};
use vcommon::gen::{self, pick, ModelCfg};
use vcommon::mirror::ModelSpec;
use vcommon::oracle::{self, RefSentence, WB};
#[allow(unused_imports)]
use vcommon::{ensure, ensure_eq};

use crate::util;

#[derive(Clone, Debug, Serialize, Deserialize)]
pub struct PredictCase {
    pub spec: ModelSpec,
    pub lines: Vec<String>,
    pub no_norm: bool,
    pub predict_tags: bool,
    pub scores: bool,
    pub tag_scores: bool,
    pub wsconst: Vec<char>,
}

fn filters(ws: &[char]) -> Vec<Box<dyn SentenceFilter>> {
    ws.iter()
        .map(|c| -> Box<dyn SentenceFilter> {
            match c {
                'D' => Box::new(KyteaWsConstFilter::new(CharacterType::Digit)),
                'R' => Box::new(KyteaWsConstFilter::new(CharacterType::Roman)),
                'H' => Box::new(KyteaWsConstFilter::new(CharacterType::Hiragana)),
                'T' => Box::new(KyteaWsConstFilter::new(CharacterType::Katakana)),
                'K' => Box::new(KyteaWsConstFilter::new(CharacterType::Kanji)),
                'O' => Box::new(KyteaWsConstFilter::new(CharacterType::Other)),
                _ => Box::new(ConcatGraphemeClustersFilter),
            }
        })
        .collect()
}

/// Expected stdout as a sequence of segments, each with one or more acceptable alternatives.
fn expected_predict(case: &PredictCase, with_tag_blocks: bool, empty_tag_blocks: bool) -> Result<Vec<Vec<String>>, String> {
    let mut p = util::predictor(&case.spec, case.predict_tags)?;
    if case.tag_scores && case.predict_tags {
        p.store_tag_scores(true);
    }
    let fs = filters(&case.wsconst);
    let mut segs: Vec<Vec<String>> = vec![];
    for line in &case.lines {
        let norm = if case.no_norm { line.clone() } else { KyteaFullwidthFilter.filter(line.as_str()) };
        match Sentence::from_raw(norm.clone()) {
            Ok(mut s) => {
                p.predict(&mut s);
                fs.iter().for_each(|f| f.filter(&mut s));
                if case.predict_tags {
                    s.fill_tags();
                }
                let obs = oracle::observe_sentence(&s);
                let orig: Vec<char> = line.chars().collect();
                if orig.len() != obs.chars.len() {
                    return Err(format!("normalisation changed the character count of {line:?}"));
                }
                let rs = RefSentence { chars: orig, labels: obs.labels.clone(), tags: obs.tags.clone(), n_tags: obs.n_tags };
                let mut out = oracle::ref_write_tokenized(&rs);
                out.push('\n');
                if case.scores {
                    let cs = &obs.chars;
                    for (i, sc) in s.boundary_scores().iter().enumerate() {
                        out.push_str(&format!("{i}:{}{} {sc}\n", cs[i], cs[i + 1]));
                    }
                    out.push('\n');
                }
                if with_tag_blocks {
                    for tok in s.iter_tokens() {
                        out.push_str(tok.surface());
                        if !empty_tag_blocks {
                            for cands in tok.tag_candidates() {
                                out.push('\t');
                                let items: Vec<String> = cands.iter().map(|(t, sc)| format!("{t}:{sc}")).collect();
                                out.push_str(&items.join(","));
                            }
                        }
                        out.push('\n');
                    }
                    out.push('\n');
                }
                segs.push(vec![out]);
            }
            Err(_) => {
                // an empty line for an empty or rejected input; what block (if any) follows a
                // rejected line is not specified: nothing or an empty block are accepted
                if with_tag_blocks {
                    segs.push(vec!["\n".into(), "\n\n".into()]);
                } else {
                    segs.push(vec!["\n".into()]);
                }
            }
        }
    }
    Ok(segs)
}

fn matches(segs: &[Vec<String>], out: &str) -> bool {
    // set of positions reachable after each segment (iterative: streams have up to 70,000 lines)
    let mut pos: std::collections::BTreeSet<usize> = [0usize].into_iter().collect();
    for alts in segs {
        let mut next = std::collections::BTreeSet::new();
        for &p in &pos {
            for a in alts {
                if out.is_char_boundary(p) && out[p..].starts_with(a.as_str()) {
                    next.insert(p + a.len());
                }
            }
        }
        if next.is_empty() {
            return false;
        }
        pos = next;
    }
    pos.contains(&out.len())
}

fn first_diff(segs: &[Vec<String>], out: &str) -> String {
    // greedy walk for the message only
    let mut pos = 0;
    for (k, alts) in segs.iter().enumerate() {
        match alts.iter().find(|a| out[pos..].starts_with(a.as_str())) {
            Some(a) => pos += a.len(),
            None => {
                let got: String = out[pos..].chars().take(alts[0].chars().count() + 20).collect();
                return format!("at input line {k}: expected {:?}, tool printed {:?}", alts[0], got);
            }
        }
    }
    format!("{} extra bytes at the end: {:?}", out.len() - pos, &out[pos..])
}

pub fn predict_args(case: &PredictCase, model: &str) -> Vec<String> {
    let mut a = vec!["--model".to_string(), model.to_string()];
    if case.no_norm {
        a.push("--no-norm".into());
    }
    if case.predict_tags {
        a.push("--predict-tags".into());
    }
    if case.scores {
        a.push("--scores".into());
    }
    if case.tag_scores {
        a.push("--tag-scores".into());
    }
    for c in &case.wsconst {
        a.push("--wsconst".into());
        a.push(c.to_string());
    }
    a
}

/// Input stream for the tools. "The input line" is what `BufRead::lines` yields (it strips one
/// "\n" or "\r\n"): a line whose text ends in CR is therefore always terminated with "\r\n" (so
/// that CR stays text, e.g. "abc\r\r\n"), other lines alternate between "\n" and "\r\n", and the
/// last line is sometimes left unterminated.
pub fn build_stream(lines: &[String]) -> Vec<u8> {
    let mut out = vec![];
    for (i, l) in lines.iter().enumerate() {
        out.extend_from_slice(l.as_bytes());
        let last = i + 1 == lines.len();
        if l.ends_with('\r') {
            if !(last && l.len() % 2 == 0) {
                out.extend_from_slice(b"\r\n");
            }
        } else if last && !l.is_empty() && l.len() % 3 == 0 {
            // unterminated last line
        } else if (i + l.len()) % 3 == 1 {
            out.extend_from_slice(b"\r\n");
        } else {
            out.push(b'\n');
        }
    }
    out
}

pub fn test_predict(case: &PredictCase) -> TestResult {
    let dir = util::Scratch::new("c20");
    let mpath = dir.path("model.zst");
    std::fs::write(&mpath, util::zstd_encode(&case.spec.to_bytes())).map_err(|e| e.to_string())?;
    let stdin = build_stream(&case.lines);
    let r = util::run_tool("predict", &predict_args(case, &mpath.to_string_lossy()), &stdin)?;
    let out = String::from_utf8(r.stdout.clone()).map_err(|_| "predict wrote invalid UTF-8".to_string())?;
    ensure!(!r.stderr.contains("panicked"), "predict crashed: {}", r.stderr.lines().filter(|l| l.contains("panicked") || l.contains("must be")).collect::<Vec<_>>().join(" / "));
    let rejected = case.lines.iter().filter(|l| l.is_empty() || l.contains('\0')).count();
    let info = |nt: bool| {
        Info::new(nt)
            .class(case.no_norm, "--no-norm")
            .class(case.predict_tags, "--predict-tags")
            .class(case.scores, "--scores")
            .class(case.tag_scores, "--tag-scores")
            .class(!case.wsconst.is_empty(), "--wsconst")
            .class(rejected > 0, "rejected-line")
            .class(
                case.lines.windows(2).any(|w| w[0] != w[1] && !w[0].is_empty() && KyteaFullwidthFilter.filter(w[0].as_str()) == KyteaFullwidthFilter.filter(w[1].as_str())),
                "adjacent-lines-equal-after-normalisation",
            )
            .class(case.lines.windows(2).any(|w| w[0] == w[1] && !w[0].is_empty()), "adjacent-equal-lines")
            .class(case.spec.tag_models.is_empty(), "model-without-tag-models")
    };
    let norm_changes = case.lines.iter().any(|l| KyteaFullwidthFilter.filter(l.as_str()) != *l);
    let nt = rejected > 0 && rejected < case.lines.len() && norm_changes;
    if case.tag_scores && !case.predict_tags {
        // under-specified combination: a clean usage error, the same output as without
        // --tag-scores, or blocks listing each token without candidates are accepted; a crash is not
        if r.code != Some(0) {
            ensure!(out.is_empty(), "predict exits with {:?} after writing output", r.code);
            return Ok(info(nt).class(true, "tag-scores-without-predict-tags:usage-error"));
        }
        let plain = expected_predict(case, false, false)?;
        let empty_blocks = expected_predict(case, true, true)?;
        ensure!(
            matches(&plain, &out) || matches(&empty_blocks, &out),
            "--tag-scores without --predict-tags: output is neither the plain output nor empty blocks: {}",
            first_diff(&plain, &out)
        );
        return Ok(info(nt).class(true, "tag-scores-without-predict-tags:accepted"));
    }
    ensure!(r.code == Some(0), "predict exits with {:?}: {}", r.code, r.stderr.lines().last().unwrap_or(""));
    let segs = expected_predict(case, case.tag_scores && case.predict_tags, false)?;
    if !matches(&segs, &out) {
        return Err(format!(
            "predict output differs from the library pipeline (args {:?}): {}",
            predict_args(case, "M"),
            first_diff(&segs, &out)
        )
        .into());
    }
    // metamorphic: on streams the normaliser leaves unchanged, --no-norm output == default output
    if !norm_changes {
        let mut other = case.clone();
        other.no_norm = !case.no_norm;
        let r2 = util::run_tool("predict", &predict_args(&other, &mpath.to_string_lossy()), &stdin)?;
        ensure!(
            r2.stdout == r.stdout,
            "normalisation-invariant input gives different output with and without --no-norm (args {:?})",
            predict_args(case, "M")
        );
    }
    Ok(info(nt).class(!norm_changes, "mode-equivalence-checked"))
}

const LINE_POOL: &[char] = &[
    'a', 'b', 'Z', '1', '9', '(', ')', '.', ',', '-', '%', '/', '\\', ' ', 'ｱ', 'ｶ', 'ﾞ', '｡', 'あ', 'の', 'ア',
    '火', '星', 'Ａ', '１', '\r', '\0', '𠀋', '😀', '\u{200d}', '👨', '"', '\'', '\t',
    // the non-ASCII sources of the normaliser table, four of which change their character type
    // under normalisation (the dashes become the katakana prolonged sound mark)
    '－', '―', '─', '–', '～', '､', '･', '｢', '｣', 'ー', 'メ',
    // first / last scalar values of the UTF-8 lead-byte classes, Thai and Devanagari (lead 0xE0)
    '\u{7f}', '\u{80}', '\u{7ff}', '\u{800}', 'ส', 'न', '\u{fff}', '\u{1000}', '\u{d7ff}', '\u{e000}', '\u{ffff}', '\u{10000}', '\u{10ffff}',
];

fn lines_strategy() -> impl Strategy<Value = Vec<Vec<u16>>> {
    proptest::collection::vec(
        prop_oneof![6 => proptest::collection::vec(any::<u16>(), 1..=12), 1 => Just(vec![])],
        1..=12,
    )
}

fn resolve_line(raw: &[u16], palette: &[char]) -> String {
    let s: String = raw
        .iter()
        .map(|&i| {
            if i < 40000 {
                palette[(i as usize * palette.len()) / 40000]
            } else {
                LINE_POOL[((i as usize - 40000) * LINE_POOL.len()) / (65536 - 40000)]
            }
        })
        .collect();
    s
}

/// The same text with some characters in the other width (ASCII <-> full-width forms).
fn flip_width(line: &str, salt: usize) -> String {
    line.chars()
        .enumerate()
        .map(|(k, c)| {
            if (k + salt) % 3 == 2 {
                return c;
            }
            match c as u32 {
                0x21..=0x7e => char::from_u32(c as u32 + 0xfee0).unwrap(),
                0xff01..=0xff5e => char::from_u32(c as u32 - 0xfee0).unwrap(),
                _ => c,
            }
        })
        .collect()
}

fn predict_case_strategy() -> impl Strategy<Value = PredictCase> {
    (
        gen::model_case(ModelCfg { max_texts: 2, ..ModelCfg::TAGGED }),
        lines_strategy(),
        any::<[bool; 4]>(),
        proptest::collection::vec(any::<u16>(), 0..=3),
        prop::bool::weighted(0.25),
        prop::bool::weighted(0.3),
        proptest::collection::vec(0u8..12, 13),
    )
        .prop_map(|(mc, lines, flags, ws, drop_tags, invariant, relations)| {
            let mut pal: Vec<char> = mc.texts.iter().flat_map(|t| t.chars()).filter(|&c| c != '\n' && c != '\r').collect();
            pal.sort();
            pal.dedup();
            if pal.is_empty() {
                pal.push('a');
            }
            let mut spec = mc.spec;
            if drop_tags {
                spec.tag_models.clear();
            }
            let mut ls: Vec<String> = lines.iter().map(|l| resolve_line(l, &pal)).collect();
            // lines related to the line before them: the same line again, the same text in the
            // other character width (equal after normalisation), its normalised form, a prefix,
            // an extension - what per-line state carried over to the next line would confuse
            for i in 1..ls.len() {
                let prev = ls[i - 1].clone();
                match relations[i] {
                    7 => ls[i] = prev,
                    8 => ls[i] = flip_width(&prev, i),
                    9 => ls[i] = KyteaFullwidthFilter.filter(prev.as_str()),
                    10 => ls[i] = prev.chars().take(prev.chars().count().saturating_sub(1)).collect(),
                    11 => ls[i] = format!("{prev}{}", ls[i]),
                    _ => {}
                }
            }
            // texts of the model are good input lines too
            for t in mc.texts.iter().take(1) {
                let t: String = t.chars().filter(|&c| c != '\n').collect();
                if !t.is_empty() {
                    ls.push(t);
                }
            }
            if invariant {
                // a stream the normaliser leaves unchanged (for the mode-equivalence relation)
                for l in ls.iter_mut() {
                    *l = l
                        .chars()
                        .map(|c| if KyteaFullwidthFilter.filter(c.to_string().as_str()) != c.to_string() { 'あ' } else { c })
                        .collect();
                }
            }
            PredictCase {
                spec,
                lines: ls,
                no_norm: flags[0],
                predict_tags: flags[1],
                scores: flags[2],
                tag_scores: flags[3],
                wsconst: ws.iter().map(|&i| ['D', 'R', 'H', 'T', 'K', 'O', 'G'][pick(i, 7)]).collect(),
            }
        })
}

// ------------------------------------------------------------------------------------------
// evaluate

#[derive(Clone, Debug, Serialize, Deserialize)]
pub struct EvalCase {
    pub spec: ModelSpec,
    /// tokenized reference lines (valid) and empty lines
    pub lines: Vec<String>,
    pub no_norm: bool,
    pub predict_tags: bool,
    pub word_metric: bool,
    pub wsconst: Vec<char>,
    /// references carry tags although --predict-tags is not given
    #[serde(default)]
    pub ref_tags_anyway: bool,
}

fn rows(rs: &RefSentence) -> Vec<Vec<Option<String>>> {
    (0..rs.chars.len())
        .map(|i| (0..rs.n_tags).map(|j| rs.tags[i].get(j).cloned().flatten()).collect())
        .collect()
}

fn words(labels: &[u8]) -> Vec<(usize, usize)> {
    let mut out = vec![];
    let mut st = 0;
    for (i, &l) in labels.iter().enumerate() {
        if l == WB {
            out.push((st, i + 1));
            st = i + 1;
        }
    }
    out.push((st, labels.len() + 1));
    out
}

fn fnum(s: &str) -> Result<f64, String> {
    let t = s.trim();
    if t == "NaN" {
        return Ok(f64::NAN);
    }
    t.parse::<f64>().map_err(|e| format!("cannot parse number {t:?}: {e}"))
}

fn close(a: f64, b: f64) -> bool {
    (a.is_nan() && b.is_nan()) || a == b || (a - b).abs() <= 1e-12 * a.abs().max(b.abs()).max(1.0)
}

pub fn test_evaluate(case: &EvalCase) -> TestResult {
    let dir = util::Scratch::new("c20e");
    let mpath = dir.path("model.zst");
    std::fs::write(&mpath, util::zstd_encode(&case.spec.to_bytes())).map_err(|e| e.to_string())?;
    let stdin = build_stream(&case.lines);
    let mut args = vec!["--model".to_string(), mpath.to_string_lossy().to_string()];
    if case.no_norm {
        args.push("--no-norm".into());
    }
    if case.predict_tags {
        args.push("--predict-tags".into());
    }
    args.push("--metric".into());
    args.push(if case.word_metric { "word".into() } else { "char".into() });
    for c in &case.wsconst {
        args.push("--wsconst".into());
        args.push(c.to_string());
    }
    let r = util::run_tool("evaluate", &args, &stdin)?;
    ensure!(!r.stderr.contains("panicked"), "evaluate crashed: {}", r.stderr);
    ensure!(r.code == Some(0), "evaluate exits with {:?}: {}", r.code, r.stderr.lines().last().unwrap_or(""));
    let out = String::from_utf8_lossy(&r.stdout).to_string();
    // recompute from library predictions
    let p: Predictor = util::predictor(&case.spec, case.predict_tags)?;
    let fs = filters(&case.wsconst);
    let (mut tp, mut tn, mut fp, mut fnn) = (0u32, 0u32, 0u32, 0u32);
    let (mut n_sys, mut n_ref, mut n_cor) = (0u32, 0u32, 0u32);
    // correct words when tags are left out of the comparison (see below)
    let mut n_cor_spans = 0u32;
    for line in &case.lines {
        if line.is_empty() {
            continue;
        }
        let refs = Sentence::from_tokenized(line).map_err(|e| format!("generator produced an invalid reference {line:?}: {e}"))?;
        let r_obs = oracle::observe_sentence(&refs);
        let mut s = if case.no_norm {
            refs
        } else {
            Sentence::from_raw(KyteaFullwidthFilter.filter(r_obs.text().as_str())).map_err(|e| e.to_string())?
        };
        p.predict(&mut s);
        fs.iter().for_each(|f| f.filter(&mut s));
        if case.predict_tags {
            s.fill_tags();
        }
        let s_obs = oracle::observe_sentence(&s);
        for (a, b) in r_obs.labels.iter().zip(&s_obs.labels) {
            match (*a == WB, *b == WB) {
                (true, true) => tp += 1,
                (false, false) => tn += 1,
                (false, true) => fp += 1,
                (true, false) => fnn += 1,
            }
        }
        let (rw, sw) = (words(&r_obs.labels), words(&s_obs.labels));
        let (rr, sr) = (rows(&r_obs), rows(&s_obs));
        n_ref += rw.len() as u32;
        n_sys += sw.len() as u32;
        for w in &sw {
            if rw.contains(w) && rr[w.1 - 1] == sr[w.1 - 1] {
                n_cor += 1;
            }
            if rw.contains(w) {
                n_cor_spans += 1;
            }
        }
    }
    let vals: Vec<(String, String)> = out
        .lines()
        .filter_map(|l| l.split_once(": ").map(|(a, b)| (a.to_string(), b.to_string())))
        .collect();
    let get = |k: &str| -> Result<String, String> {
        vals.iter().find(|(a, _)| a == k).map(|(_, b)| b.clone()).ok_or_else(|| format!("evaluate printed no {k:?} line: {out:?}"))
    };
    let metrics = |n_cor: u32| -> (f64, f64, f64) {
        let (prec, rec) = if case.word_metric {
            (f64::from(n_cor) / f64::from(n_sys), f64::from(n_cor) / f64::from(n_ref))
        } else {
            (f64::from(tp) / f64::from(tp + fp), f64::from(tp) / f64::from(tp + fnn))
        };
        (prec, rec, 2. * prec * rec / (prec + rec))
    };
    let (prec, rec, f1) = metrics(n_cor);
    let (gp, gr, gf) = (fnum(&get("Precision")?)?, fnum(&get("Recall")?)?, fnum(&get("F1")?)?);
    // Tagged references evaluated without --predict-tags: the system side has no tags, and whether
    // a word with the right span then counts as correct is a matter of the metric's definition,
    // not of the library's predictions. Both definitions are accepted - tag vectors compared (no
    // tagged word is correct) and tags left out - but one of them has to hold for the whole file.
    let spans_only = metrics(n_cor_spans);
    let either = case.ref_tags_anyway && !case.predict_tags && case.word_metric;
    let agrees = |m: (f64, f64, f64)| close(gp, m.0) && close(gr, m.1) && close(gf, m.2);
    if either {
        ensure!(
            agrees((prec, rec, f1)) || agrees(spans_only),
            "tagged references without --predict-tags: tool gives P {gp} R {gr} F1 {gf}; with tags compared on every line the library gives {:?}, with tags left out on every line {:?} (args {args:?})",
            (prec, rec, f1),
            spans_only
        );
    } else {
        ensure!(close(gp, prec), "Precision: tool {gp}, library {prec} (args {args:?})");
        ensure!(close(gr, rec), "Recall: tool {gr}, library {rec} (args {args:?})");
        ensure!(close(gf, f1), "F1: tool {gf}, library {f1}");
    }
    if !case.word_metric {
        let counts = out.lines().find(|l| l.starts_with("TP: ")).ok_or("no TP line")?;
        ensure_eq!(counts, format!("TP: {tp}, TN: {tn}, FP: {fp}, FN: {fnn}"), "confusion counts");
    }
    Ok(Info::new(tp + fp > 0 && (fp > 0 || fnn > 0))
        .class(case.word_metric, "--metric word")
        .class(!case.word_metric, "--metric char")
        .class(case.no_norm, "--no-norm")
        .class(case.predict_tags, "--predict-tags")
        .class(!case.wsconst.is_empty(), "--wsconst")
        .class(n_cor > 0, "some-word-correct")
        .class(either && n_cor != n_cor_spans, "tagged-references-without-predict-tags")
        .class(prec.is_nan() || rec.is_nan(), "NaN-metric"))
}

fn eval_case_strategy() -> impl Strategy<Value = EvalCase> {
    (
        gen::model_case(ModelCfg { min_texts: 2, max_texts: 3, ..ModelCfg::TAGGED }),
        proptest::collection::vec((any::<u16>(), proptest::collection::vec(any::<u16>(), 16), any::<u16>()), 1..=6),
        any::<[bool; 3]>(),
        proptest::collection::vec(any::<u16>(), 0..=2),
        0u8..3,
    )
        .prop_map(|(mc, sel, flags, ws, anyway)| {
            let predict_tags = flags[1];
            let ref_tags_anyway = !predict_tags && anyway == 0;
            let n_tags = if ref_tags_anyway { 1 + ws.len() } else { mc.spec.n_tags() };
            let p_ref = util::predictor(&mc.spec, false).ok();
            let mut lines = vec![];
            for (ti, lab, k) in sel {
                if k % 7 == 0 {
                    lines.push(String::new());
                    continue;
                }
                let mut t: String = mc.texts[pick(ti, mc.texts.len())].chars().filter(|c| *c != '\n').collect();
                if k % 5 == 1 {
                    t.push('\r'); // a reference whose text ends in CR
                }
                let chars: Vec<char> = t.chars().collect();
                if chars.is_empty() {
                    continue;
                }
                // reference segmentation: mostly the model's own prediction with some flips
                let mut labels: Vec<u8> = vec![0; chars.len() - 1];
                if let (Some(p), Ok(mut s)) = (p_ref.as_ref(), Sentence::from_raw(KyteaFullwidthFilter.filter(t.as_str()))) {
                    p.predict(&mut s);
                    labels = oracle::labels_of(&s);
                }
                for (i, l) in labels.iter_mut().enumerate() {
                    if lab[i % lab.len()] % 4 == 0 {
                        *l = 1 - *l;
                    }
                }
                let tags = (0..chars.len())
                    .map(|i| {
                        if predict_tags || ref_tags_anyway {
                            (0..n_tags).map(|j| if (i + j + k as usize) % 3 == 0 { None } else { Some(format!("t{}", (i + j) % 2)) }).collect()
                        } else {
                            vec![]
                        }
                    })
                    .collect();
                let rs = RefSentence { chars, labels, tags, n_tags: if predict_tags || ref_tags_anyway { n_tags } else { 0 } };
                lines.push(oracle::ref_write_tokenized(&rs));
            }
            EvalCase {
                spec: mc.spec,
                lines,
                no_norm: flags[0],
                predict_tags,
                word_metric: flags[2],
                wsconst: ws.iter().map(|&i| ['D', 'R', 'H', 'T', 'K', 'O', 'G'][pick(i, 7)]).collect(),
                ref_tags_anyway,
            }
        })
}

/// The train program against the library pipeline it is documented to be (README: corpus lines
/// -> [full-width normalisation] -> Trainer::add_example in file order -> train -> zstd): the
/// harness performs the same steps through the library API on the very lines it wrote and
/// compares what is comparable across processes (see below).
pub fn test_train(case: &vcommon::train::TrainCase) -> TestResult {
    use std::collections::BTreeSet;
    use vaporetto::Trainer;
    use vcommon::oracle::UNK;
    let cfg = &case.cfg;
    let line_break_in = |r: &RefSentence| {
        r.chars.iter().any(|&c| c == '\n' || c == '\r')
            || r.tags.iter().flatten().flatten().any(|t| t.contains('\n') || t.contains('\r'))
    };
    if case.corpus.iter().chain(&case.tag_dict).any(line_break_in) {
        return Ok(Info::new(false).class(true, "skipped:line-break-inside-a-sentence"));
    }
    let no_norm = cfg.dictn % 2 == 0;
    let crlf = cfg.solver % 2 == 0;
    let eol = if crlf { "\r\n" } else { "\n" };
    let (mut tok, mut part, mut dict): (Vec<String>, Vec<String>, Vec<String>) = (vec![], vec![], vec![]);
    for r in &case.corpus {
        if r.labels.contains(&UNK) {
            part.push(oracle::ref_write_partial(r));
        } else {
            tok.push(oracle::ref_write_tokenized(r));
        }
    }
    for w in &cfg.dict {
        let cs: Vec<char> = w.chars().collect();
        if !cs.is_empty() {
            dict.push(oracle::ref_write_tokenized(&RefSentence { labels: vec![0; cs.len() - 1], tags: vec![vec![]; cs.len()], n_tags: 0, chars: cs }));
        }
    }
    for r in &case.tag_dict {
        let mut r = r.clone();
        r.labels.iter_mut().for_each(|l| if *l == UNK { *l = WB });
        dict.push(oracle::ref_write_tokenized(&r));
    }
    if tok.is_empty() && part.is_empty() {
        return Ok(Info::new(false).class(true, "skipped:empty-corpus"));
    }
    let dir = util::Scratch::new("c20t");
    let fmodel = dir.path("m.zst");
    let mut args: Vec<String> = vec![];
    for (flag, name, lines) in [("--tok", "c.tok", &tok), ("--part", "c.part", &part), ("--dict", "d.txt", &dict)] {
        if !lines.is_empty() {
            let path = dir.path(name);
            let content: String = lines.iter().map(|l| format!("{l}{eol}")).collect();
            std::fs::write(&path, content).map_err(|e| e.to_string())?;
            args.push(flag.into());
            args.push(path.to_string_lossy().to_string());
        }
    }
    for (flag, v) in [("--charw", cfg.charw), ("--charn", cfg.charn), ("--typew", cfg.typew), ("--typen", cfg.typen), ("--dictn", cfg.dictn.max(1)), ("--solver", cfg.solver % 8)] {
        args.push(flag.into());
        args.push(v.to_string());
    }
    if no_norm {
        args.push("--no-norm".into());
    }
    args.push("--model".into());
    args.push(fmodel.to_string_lossy().to_string());
    if args.len() % 2 == 0 {
        util::prefill(&fmodel, args.len());
    }
    let r = util::run_tool("train", &args, b"")?;
    ensure!(!r.stderr.contains("panicked"), "train crashed: {}", r.stderr.lines().find(|l| l.contains("panicked")).unwrap_or(""));
    // the same pipeline through the library
    let load = |line: &str, partial: bool| -> Result<Sentence<'static, 'static>, String> {
        let s = if partial { Sentence::from_partial_annotation(line) } else { Sentence::from_tokenized(line) }.map_err(|e| e.to_string())?;
        if no_norm {
            return Ok(s);
        }
        let mut n = Sentence::from_raw(KyteaFullwidthFilter.filter(s.as_raw_text())).map_err(|e| e.to_string())?;
        n.boundaries_mut().clone_from_slice(s.boundaries());
        n.reset_tags(s.n_tags());
        n.tags_mut().clone_from_slice(s.tags());
        Ok(n)
    };
    let library = (|| -> Result<Vec<u8>, String> {
        let mut sents = vec![];
        for l in &tok {
            sents.push(load(l, false)?);
        }
        for l in &part {
            sents.push(load(l, true)?);
        }
        let mut words = BTreeSet::new();
        let mut tag_dictionary = vec![];
        for l in &dict {
            let s = load(l, false)?;
            for t in s.iter_tokens() {
                words.insert(t.surface().to_string());
            }
            tag_dictionary.push(s);
        }
        let mut trainer = Trainer::new(cfg.charw, cfg.charn, cfg.typew, cfg.typen, words.into_iter().collect(), cfg.dictn.max(1), &tag_dictionary)
            .map_err(|e| e.to_string())?;
        for s in &sents {
            trainer.add_example(s);
        }
        let model = util::train_deterministic(|| trainer.train(0.01, 1.0, vcommon::train::solver_of(cfg.solver))).map_err(|e| e.to_string())?;
        model.to_vec().map_err(|e| e.to_string())
    })();
    let info = Info::new(!part.is_empty() && !dict.is_empty())
        .class(no_norm, "--no-norm")
        .class(crlf, "CRLF-files")
        .class(!part.is_empty(), "--part")
        .class(!dict.is_empty(), "--dict");
    // What can be compared across two processes: the example order inside the trainer depends
    // on a per-process hash seed, so liblinear's solution - and with it every weight - differs
    // in the last digits from run to run. Discrete content does not: window sizes, the
    // dictionary word list, the tag models' candidate lists, and (for the L2-regularised solvers,
    // whose optimum is unique) which n-grams carry a clearly non-zero weight.
    let invalid_argument = |e: &str| e.contains("InvalidArgument");
    match (r.code == Some(0), library) {
        (false, Err(_)) => Ok(info.class(true, "both-fail")),
        (false, Ok(_)) => {
            let last = r.stderr.lines().last().unwrap_or("").to_string();
            ensure!(
                !invalid_argument(&last),
                "train rejects its input ({last}) but the library pipeline accepts the same files (args {:?})",
                &args[..args.len() - 2]
            );
            Ok(info.class(true, "train-fails-in-the-learner"))
        }
        (true, Err(e)) => {
            ensure!(!invalid_argument(&e), "train writes a model but the library pipeline rejects the same files: {e}");
            Ok(info.class(true, "library-fails-in-the-learner"))
        }
        (true, Ok(lib)) => {
            let raw = util::zstd_decode(&std::fs::read(&fmodel).map_err(|e| format!("no model file: {e}"))?)?;
            let a = ModelSpec::from_bytes(&raw).map_err(|e| format!("model written by train: {e}"))?.0;
            let b = ModelSpec::from_bytes(&lib)?.0;
            ensure_eq!((a.char_window, a.type_window), (b.char_window, b.type_window), "window sizes of the model written by train vs the library pipeline");
            ensure_eq!(
                a.dict.iter().map(|d| (&d.word, d.weights.len())).collect::<Vec<_>>(),
                b.dict.iter().map(|d| (&d.word, d.weights.len())).collect::<Vec<_>>(),
                "dictionary words of the model written by train vs the library pipeline"
            );
            let tm = |m: &ModelSpec| -> BTreeSet<(String, Vec<Vec<String>>)> { m.tag_models.iter().map(|t| (t.token.clone(), t.tags.clone())).collect() };
            ensure_eq!(tm(&a), tm(&b), "tag models (token, candidate lists) of the model written by train vs the library pipeline");
            let l2 = matches!(cfg.solver % 8, 0 | 1 | 2 | 3 | 7);
            if l2 {
                let maxw = |m: &ModelSpec| m.char_ngrams.iter().chain(&[]).flat_map(|g| g.weights.iter()).chain(m.type_ngrams.iter().flat_map(|g| g.weights.iter())).map(|w| w.abs()).max().unwrap_or(0).max(m.bias.abs());
                for (x, y, xn, yn) in [(&a, &b, "train", "the library pipeline"), (&b, &a, "the library pipeline", "train")] {
                    let thr = (maxw(x) / 10).max(50);
                    for g in &x.char_ngrams {
                        if g.weights.iter().any(|w| w.abs() >= thr) {
                            ensure!(y.char_ngrams.iter().any(|h| h.ngram == g.ngram), "character n-gram {:?} has weights {:?} in the model of {xn} and is missing from the model of {yn}", g.ngram, g.weights);
                        }
                    }
                    for g in &x.type_ngrams {
                        if g.weights.iter().any(|w| w.abs() >= thr) {
                            ensure!(y.type_ngrams.iter().any(|h| h.ngram == g.ngram), "type n-gram {:?} has weights {:?} in the model of {xn} and is missing from the model of {yn}", g.ngram, g.weights);
                        }
                    }
                }
            }
            Ok(info.class(true, "models-compared").class(l2, "n-gram-sets-compared(L2 solver)").class(raw == lib, "models-identical-bytes"))
        }
    }
}

pub fn run(rep: &mut Report) {
    let n = rep.n(6000, 100000);
    rep.run_prop(
        "predict",
        "the real predict binary (rebuilt from /repo): generated models with/without tag models \
written as .zst, input streams of 1-13 lines (empty lines, NUL, spaces, slashes, backslashes, \
half-width characters, lone CR inside a line, multi-byte), every subset of {--no-norm, \
--predict-tags, --scores, --tag-scores} x wsconst lists: stdout equals the output assembled from \
library calls (one tokenised line per input line over the ORIGINAL text, empty for rejected \
input; score block, then tag-score block, in the layout of the normalised mode), exit 0, no \
panic; on normalisation-invariant streams --no-norm output == default output. Non-trivial = a \
rejected line between accepted ones and a line the normaliser changes.",
        n,
        predict_case_strategy,
        test_predict,
    );
    rep.run_enum(
        "long-streams",
        "deterministic large inputs through the real predict binary: 3,000 short lines, a line of 70,000 and one of 65,536 characters, 70,000 lines (every \
10th empty, every 37th containing NUL), one 30,000-character line, with --scores / --predict-tags \
--tag-scores; same oracle",
        false,
        (0..5u8).map(|k| {
            // (the model of case 1 is larger than 1 MB: more than any buffer between the
            // program and its zstd decoder)
            let mc = crate::checks::c14::large_model(&crate::checks::c14::LargeCase { n_tag_models: 60, n_char_ngrams: if k == 1 { 70_000 } else { 200 }, n_words: 20, n_long_words: 0, long_text: 0 });
            let ch = |i: usize| char::from_u32(0x4E00 + (i % 120) as u32).unwrap();
            let lines: Vec<String> = match k {
                0 | 1 => (0..3000usize)
                    .map(|i| {
                        if i % 10 == 9 {
                            String::new()
                        } else if i % 37 == 5 {
                            format!("{}\0{}", ch(i), ch(i + 1))
                        } else {
                            (0..(1 + i % 9)).map(|j| if (i + j) % 11 == 0 { 'a' } else { ch(i * 3 + j) }).collect()
                        }
                    })
                    .collect(),
                2 => vec![(0..30_000).map(|i| if i % 50 == 7 { '1' } else { ch(i * 7 + i / 13) }).collect(), "短".into()],
                // a line above 65,535 characters (and one of exactly 65,536) between short ones
                3 => vec![
                    "短".into(),
                    (0..70_000).map(|i| if i % 50 == 7 { 'ｱ' } else if i % 61 == 3 { 'a' } else { ch(i * 7 + i / 13) }).collect(),
                    (0..65_536).map(|i| ch(i * 5 + i / 17)).collect(),
                    "a".into(),
                ],
                // more than 65,535 lines
                _ => (0..70_000usize).map(|i| if i % 1000 == 999 { String::new() } else { [ch(i), ch(i / 7)].iter().collect() }).collect(),
            };
            PredictCase {
                spec: mc.spec,
                lines,
                no_norm: k == 1,
                predict_tags: k != 1,
                scores: k != 0 && k != 4,
                tag_scores: k == 0 || k == 3,
                wsconst: if k == 2 { vec!['D', 'G'] } else { vec![] },
            }
        }),
        test_predict,
    );
    liblinear::toggle_liblinear_stdout_output(false);
    let n = rep.n(1500, 40000);
    {
        let _guard = util::redirect_output("/verif/target/C20-train-output.log");
        rep.run_prop(
            "train",
            "the real train binary on generated corpus / partial-annotation / dictionary files (LF \
and CR LF, with and without --no-norm, all size flags and solvers) against the same pipeline \
performed through the library on the very same lines (parse, normalise, Trainer::add_example in \
file order, train with the program's defaults): same window sizes, dictionary word list and tag \
models (token, candidate lists); for the L2-regularised solvers every n-gram with a clearly \
non-zero weight in one model exists in the other; input rejected by one side is rejected by the \
other (weights themselves are not compared: the order of features inside an example depends on a \
per-process hash seed, so liblinear's solution differs in the last digits between processes). \
Non-trivial = --part and --dict files present.",
            n,
            || {
                use proptest::prelude::*;
                (
                    prop_oneof![
                        1 => vcommon::train::train_case(vcommon::train::TrainGenCfg { max_sentences: 6, max_len: 8, tame: false, tag_dict: true, tag_focus: false }),
                        1 => vcommon::train::train_case(vcommon::train::TrainGenCfg { max_sentences: 8, max_len: 8, tame: false, tag_dict: true, tag_focus: true }),
                    ],
                    any::<u16>(),
                )
                    .prop_map(|(c, salt)| if salt % 2 == 0 { vcommon::train::with_whitespace_tokens(c, salt) } else { c })
            },
            test_train,
        );
    }
    let n = rep.n(3000, 40000);
    rep.run_prop(
        "evaluate",
        "the real evaluate binary: valid tokenized references (tagged with the model's category \
count under --predict-tags; without it untagged or, in a third of the runs, tagged with 1..3 \
columns: there both definitions of a correct word - tag vectors compared, tags left out - are \
accepted, one of them for the whole file) built from the model's own prediction with \
flipped boundaries x {char, word} x {--no-norm, --predict-tags, --wsconst}: confusion counts, \
precision, recall, F1 equal those recomputed from library predictions (Nagata matching from its \
definition; 1e-12 relative tolerance, NaN = NaN). Non-trivial = at least one predicted boundary \
and at least one error.",
        n,
        eval_case_strategy,
        test_evaluate,
    );
    rep.assume("the input line is what BufRead::lines yields; a line whose text ends in CR is written with a CRLF terminator so that the CR stays text");
    rep.assume("what follows a rejected line under --tag-scores is not specified: nothing or an empty block are accepted");
    rep.assume("--tag-scores without --predict-tags is under-specified: a clean usage error, plain output, or empty blocks are accepted; a crash is not");
}
