//! C19 — Dictionary edits act as documented; dump and replace are lossless.

use proptest::prelude::*;
use serde::{Deserialize, Serialize};
use vaporetto::{Model, Predictor, Sentence, WordWeightRecord};
use vcommon::engine::{Info, Report, TestResult};
use vcommon::gen::{self, pick, ModelCfg};
use vcommon::mirror::{ModelSpec, WordSpec};
use vcommon::oracle;
#[allow(unused_imports)]
use vcommon::{ensure, ensure_eq};

use crate::util;

#[derive(Clone, Debug, Serialize, Deserialize)]
pub struct DictCase {
    pub spec: ModelSpec,
    pub texts: Vec<String>,
    pub new_dict: Vec<WordSpec>,
    /// a CSV row whose weight count is wrong: (word, weights)
    pub bad_row: Option<(String, Vec<i32>)>,
}

const HOSTILE_WORDS: &[&str] = &[
    "a,b", "\"q\"", "x\ny", "x\r\ny", " lead", "trail ", "#hash", "a\"b,c", "火,星", "'", "a b",
    ",", "\"", "\r", "  ", "a\tb", "é,\"Ω\"",
];
const COMMENTS: &[&str] = &["", "c", "a,b", "\"quoted\"", "multi\nline", " spaced ", "#", "名詞,普通"];

fn dict_strategy() -> impl Strategy<Value = Vec<(u16, Vec<u16>, Vec<i32>, u16)>> {
    proptest::collection::vec(
        (
            any::<u16>(),
            proptest::collection::vec(any::<u16>(), 1..=4),
            proptest::collection::vec(
                prop_oneof![4 => -1000i32..=1000, 2 => any::<i32>(), 1 => Just(i32::MIN), 1 => Just(i32::MAX), 1 => Just(0)],
                14,
            ),
            any::<u16>(),
        ),
        0..=6,
    )
}

fn case_strategy(cfg: ModelCfg) -> impl Strategy<Value = DictCase> {
    (
        gen::model_case(cfg),
        dict_strategy(),
        prop::option::weighted(0.5, (any::<u16>(), 0usize..=6)),
    )
        .prop_map(|(mc, raw, bad)| {
            // palette of the model: characters of its texts
            let mut pal: Vec<char> = mc.texts.iter().flat_map(|t| t.chars()).collect();
            pal.sort();
            pal.dedup();
            let mut new_dict: Vec<WordSpec> = vec![];
            for (sel, chars, ws, csel) in raw {
                let word: String = if sel % 3 == 0 {
                    HOSTILE_WORDS[pick(sel, HOSTILE_WORDS.len())].to_string()
                } else {
                    chars.iter().map(|&i| pal[pick(i, pal.len())]).collect()
                };
                if new_dict.iter().any(|d| d.word == word) {
                    continue;
                }
                if sel % 7 == 2 {
                    // the same record twice in a row (e.g. merged CSV files): every entry counts
                    if let Some(prev) = new_dict.last().cloned() {
                        new_dict.push(prev);
                    }
                }
                let n = word.chars().count() + 1;
                new_dict.push(WordSpec {
                    weights: (0..n).map(|k| ws[k % ws.len()]).collect(),
                    word,
                    comment: COMMENTS[pick(csel, COMMENTS.len())].to_string(),
                });
            }
            let bad_row = bad.map(|(sel, n)| {
                let word = HOSTILE_WORDS[pick(sel, HOSTILE_WORDS.len())].to_string();
                let good = word.chars().count() + 1;
                let n = if n == good { n + 1 } else { n };
                (word, (0..n as i32).collect())
            });
            DictCase {
                spec: mc.spec,
                texts: mc.texts,
                new_dict,
                bad_row,
            }
        })
}

fn to_records(d: &[WordSpec]) -> Result<Vec<WordWeightRecord>, String> {
    d.iter()
        .map(|w| {
            WordWeightRecord::new(w.word.clone(), w.weights.clone(), w.comment.clone())
                .map_err(|e| format!("WordWeightRecord::new rejects a well-formed record {w:?}: {e}"))
        })
        .collect()
}

fn scores(spec_model: vaporetto::Model, texts: &[String]) -> Result<Vec<Vec<i64>>, String> {
    let p = Predictor::new(spec_model, false).map_err(|e| format!("Predictor::new: {e}"))?;
    let mut out = vec![];
    for t in texts {
        let mut s = Sentence::from_raw(t.clone()).map_err(|e| e.to_string())?;
        p.predict(&mut s);
        out.push(util::scores_i64(&s));
    }
    Ok(out)
}

pub fn test_library(case: &DictCase) -> TestResult {
    let spec = &case.spec;
    // weights of the replacement are kept small enough for exact i32 arithmetic
    let new_dict: Vec<WordSpec> = case
        .new_dict
        .iter()
        .map(|d| WordSpec { weights: d.weights.iter().map(|&w| w.clamp(-1_000_000, 1_000_000)).collect(), ..d.clone() })
        .collect();
    let m = spec.to_model()?;
    // accessor
    let got: Vec<(String, Vec<i32>, String)> = m
        .dictionary()
        .iter()
        .map(|r| (r.get_word().to_string(), r.get_weights().to_vec(), r.get_comment().to_string()))
        .collect();
    let want: Vec<(String, Vec<i32>, String)> =
        spec.dict.iter().map(|d| (d.word.clone(), d.weights.clone(), d.comment.clone())).collect();
    ensure_eq!(got, want, "Model::dictionary()");
    let before = scores(spec.to_model()?, &case.texts)?;
    let mut m2 = spec.to_model()?;
    // the model has been serialised before its dictionary is edited (what a program that loads,
    // saves, edits and saves again does)
    let first = m2.to_vec().map_err(|e| format!("to_vec: {e}"))?;
    m2.replace_dictionary(to_records(&new_dict)?);
    let after_spec = ModelSpec::from_model(&m2)?;
    let mut expect_spec = spec.clone();
    expect_spec.dict = new_dict.clone();
    ensure_eq!(&after_spec, &expect_spec, "model after replace_dictionary (everything but the dictionary must be unchanged)");
    let v = m2.to_vec().map_err(|e| format!("to_vec after replace_dictionary: {e}"))?;
    let mut w = vec![];
    m2.write(&mut w).map_err(|e| format!("write after replace_dictionary: {e}"))?;
    ensure!(v == w, "to_vec() ({} bytes) and write() ({} bytes) differ after replace_dictionary on a model that was serialised before", v.len(), w.len());
    ensure!(v == expect_spec.to_bytes(), "to_vec() after replace_dictionary is not the serialisation of the edited model");
    if case.texts.len() % 2 == 1 {
        // and back again
        let mut m3 = Model::read_slice(&v).map_err(|e| format!("read_slice of the edited model: {e}"))?.0;
        let _ = m3.to_vec();
        m3.replace_dictionary(to_records(&spec.dict)?);
        ensure!(m3.to_vec().ok() == Some(first.clone()), "replacing the dictionary back does not reproduce the first serialisation");
    }
    let after = scores(m2, &case.texts)?;
    let mut moved = false;
    for (ti, text) in case.texts.iter().enumerate() {
        let cs = util::chars(text);
        let old = oracle::ref_dict_scores(&spec.dict, &cs);
        let new = oracle::ref_dict_scores(&new_dict, &cs);
        for b in 0..cs.len() - 1 {
            let delta = after[ti][b] - before[ti][b];
            ensure_eq!(
                delta,
                new[b] - old[b],
                "score change of boundary {b} of {text:?} after replace_dictionary"
            );
            moved |= delta != 0;
        }
    }
    // records whose weight count does not match are rejected
    if let Some((w, ws)) = &case.bad_row {
        ensure!(
            WordWeightRecord::new(w.clone(), ws.clone(), String::new()).is_err(),
            "WordWeightRecord::new accepts {} weights for word {w:?}",
            ws.len()
        );
    }
    Ok(Info::new(moved)
        .class(moved, "replacement-changes-a-score")
        .class(new_dict.is_empty(), "empty-replacement")
        .class(spec.dict.is_empty(), "model-without-dictionary"))
}

fn csv_field(s: &str) -> String {
    if s.contains(',') || s.contains('"') || s.contains('\n') || s.contains('\r') {
        format!("\"{}\"", s.replace('"', "\"\""))
    } else {
        s.to_string()
    }
}

pub fn test_tool(case: &DictCase) -> TestResult {
    // the model under test carries the hostile dictionary itself
    let mut spec = case.spec.clone();
    spec.dict = case.new_dict.clone();
    let model_bytes = spec.to_bytes();
    let dir = util::Scratch::new("c19");
    let (min, mout, csv, bad) = (dir.path("in.zst"), dir.path("out.zst"), dir.path("dict.csv"), dir.path("bad.csv"));
    std::fs::write(&min, util::zstd_encode(&model_bytes)).map_err(|e| e.to_string())?;
    let s = |p: &std::path::PathBuf| p.to_string_lossy().to_string();
    // dump (half of the time over an existing, longer file - as a second dump to the same path is)
    if spec.dict.len() % 2 == 0 {
        util::prefill(&csv, spec.dict.len());
        util::prefill(&mout, spec.dict.len() + 3);
    }
    let r = util::run_tool("manipulate_model", &["--model-in".into(), s(&min), "--dump-dict".into(), s(&csv)], b"")?;
    ensure!(r.code == Some(0), "--dump-dict exits with {:?}: {}", r.code, r.stderr);
    // replace with the untouched dump
    let r = util::run_tool(
        "manipulate_model",
        &["--model-in".into(), s(&min), "--replace-dict".into(), s(&csv), "--model-out".into(), s(&mout)],
        b"",
    )?;
    ensure!(
        r.code == Some(0),
        "--replace-dict with the unmodified dump exits with {:?}: {} (dump: {:?})",
        r.code,
        r.stderr.lines().last().unwrap_or(""),
        std::fs::read_to_string(&csv).unwrap_or_default()
    );
    let out = util::zstd_decode(&std::fs::read(&mout).map_err(|e| format!("no output model: {e}"))?)?;
    if out != model_bytes {
        let got = ModelSpec::from_bytes(&out).map(|x| x.0.dict).ok();
        return Err(format!(
            "dump + replace with the unmodified dump changes the model: dictionary {:?} became {:?}",
            spec.dict, got
        )
        .into());
    }
    // dump and replacement in one invocation ("keep the old dictionary while installing a new
    // one"): the dump is still the dictionary of the model that was read - replacing with it
    // reproduces that model - and the written model carries the replacement. A usage error is
    // accepted. The replacement file is the program's own dump of the case's first dictionary.
    let combined;
    {
        let (min2, other, dump2, mout2) = (dir.path("in2.zst"), dir.path("other.csv"), dir.path("dump2.csv"), dir.path("out2.zst"));
        let other_bytes = case.spec.to_bytes();
        std::fs::write(&min2, util::zstd_encode(&other_bytes)).map_err(|e| e.to_string())?;
        let r = util::run_tool("manipulate_model", &["--model-in".into(), s(&min2), "--dump-dict".into(), s(&other)], b"")?;
        ensure!(r.code == Some(0), "--dump-dict exits with {:?}: {}", r.code, r.stderr);
        if spec.dict.len() % 2 == 1 {
            util::prefill(&dump2, spec.dict.len() + 7);
        }
        let r = util::run_tool(
            "manipulate_model",
            &["--model-in".into(), s(&min), "--dump-dict".into(), s(&dump2), "--replace-dict".into(), s(&other), "--model-out".into(), s(&mout2)],
            b"",
        )?;
        ensure!(!r.stderr.contains("panicked"), "tool panics when --dump-dict and --replace-dict are combined: {}", r.stderr);
        if r.code == Some(0) {
            let alone = std::fs::read(&csv).map_err(|e| e.to_string())?;
            let together = std::fs::read(&dump2).map_err(|e| format!("no dump written: {e}"))?;
            ensure!(
                alone == together,
                "--dump-dict combined with --replace-dict writes a dump that differs from the dump of the same model taken alone (replacing with it would not reproduce the model): alone {:?}, combined {:?}",
                String::from_utf8_lossy(&alone),
                String::from_utf8_lossy(&together)
            );
            let out2 = util::zstd_decode(&std::fs::read(&mout2).map_err(|e| format!("no output model: {e}"))?)?;
            if out2 != other_bytes {
                let got = ModelSpec::from_bytes(&out2).map(|x| x.0.dict).ok();
                return Err(format!(
                    "--dump-dict + --replace-dict in one run: the written model's dictionary is {:?}, the replacement file holds {:?}",
                    got, case.spec.dict
                )
                .into());
            }
            combined = "dump+replace-in-one-run";
        } else {
            combined = "dump+replace-in-one-run:refused";
        }
    }
    // replacing with a file that holds no record removes the dictionary (what the library's
    // replace_dictionary(vec![]) does)
    if spec.dict.len() % 3 == 1 || spec.dict.len() > 1000 {
        let none = dir.path("none.csv");
        let mut without = spec.clone();
        without.dict.clear();
        let want = without.to_bytes();
        for (label, content) in [("a header-only file", "word,weights,comment\n"), ("an empty file", "")] {
            std::fs::write(&none, content).map_err(|e| e.to_string())?;
            let _ = std::fs::remove_file(&mout);
            let r = util::run_tool(
                "manipulate_model",
                &["--model-in".into(), s(&min), "--replace-dict".into(), s(&none), "--model-out".into(), s(&mout)],
                b"",
            )?;
            ensure!(!r.stderr.contains("panicked"), "tool panics on {label}: {}", r.stderr);
            if r.code != Some(0) {
                // refusing a file without records is acceptable; silently keeping the old
                // dictionary is not
                continue;
            }
            let out = util::zstd_decode(&std::fs::read(&mout).map_err(|e| format!("no output model: {e}"))?)?;
            if out != want {
                let got = ModelSpec::from_bytes(&out).map(|x| x.0.dict).ok();
                return Err(format!("--replace-dict with {label} exits with 0 but the output model still has the dictionary {got:?}").into());
            }
        }
    }
    // a row whose weight count does not match the word is rejected
    let mut rejected_checked = false;
    if let Some((w, ws)) = &case.bad_row {
        let mut text = String::from("word,weights,comment\n");
        text.push_str(&format!(
            "{},{},\n",
            csv_field(w),
            ws.iter().map(|x| x.to_string()).collect::<Vec<_>>().join(" ")
        ));
        std::fs::write(&bad, text).map_err(|e| e.to_string())?;
        let _ = std::fs::remove_file(&mout);
        let r = util::run_tool(
            "manipulate_model",
            &["--model-in".into(), s(&min), "--replace-dict".into(), s(&bad), "--model-out".into(), s(&mout)],
            b"",
        )?;
        ensure!(
            r.code.is_some() && r.code != Some(0),
            "a CSV row with {} weights for word {w:?} is accepted (exit {:?})",
            ws.len(),
            r.code
        );
        ensure!(!r.stderr.contains("panicked"), "tool panics on a bad row: {}", r.stderr);
        if let Ok(b) = std::fs::read(&mout) {
            let o = util::zstd_decode(&b)?;
            ensure!(o == model_bytes, "a rejected replacement still wrote a different model");
        }
        rejected_checked = true;
    }
    let quoting = spec.dict.iter().any(|d| {
        d.word.contains(',') || d.word.contains('"') || d.word.contains('\n') || d.word.contains('\r')
    });
    let negative = spec.dict.iter().any(|d| d.weights.iter().any(|&w| w < 0));
    Ok(Info::new(quoting && negative)
        .class(quoting, "word-needs-csv-quoting")
        .class(negative, "negative-weight")
        .class(spec.dict.iter().any(|d| d.weights.iter().any(|&w| w == i32::MIN || w == i32::MAX)), "32-bit-extreme-weight")
        .class(spec.dict.iter().any(|d| !d.comment.is_empty()), "comment")
        .class(spec.dict.is_empty(), "empty-dictionary")
        .class(rejected_checked, "bad-row-rejected")
        .class(!combined.is_empty(), combined))
}

/// Deterministic scale cases: replacement dictionaries of 70,000 words (more than 65,535
/// patterns), and words of 255 / 256 / 257 / 4,096 / 32,767 characters (weight lists of one more).
fn scale_cases() -> Vec<DictCase> {
    use vcommon::mirror::NgramSpec;
    let ch = |i: usize| char::from_u32(0x4E00 + (i % 300) as u32).unwrap();
    let mut base = ModelSpec { char_window: 2, type_window: 1, bias: -5, ..ModelSpec::default() };
    base.char_ngrams.push(NgramSpec { ngram: [ch(1), ch(2)].iter().collect(), weights: vec![4, -3, 2] });
    base.dict.push(WordSpec { word: [ch(1), ch(2), ch(3)].iter().collect(), weights: vec![9, -9, 9, -9], comment: "old".into() });
    let mut out = vec![];
    // 70,000 two-character words; the texts walk over a few hundred of them
    let many: Vec<WordSpec> = (0..70_000usize)
        .map(|k| WordSpec { word: [ch(k / 300), ch(k % 300)].iter().collect(), weights: vec![(k % 17) as i32 - 8, (k % 5) as i32 - 2, (k % 3) as i32], comment: if k % 1000 == 0 { format!("c{k}") } else { String::new() } })
        .collect();
    out.push(DictCase {
        spec: base.clone(),
        texts: (0..4).map(|t| (0..80).map(|i| ch(i * (t + 2) * 13 + t)).collect()).collect(),
        new_dict: many,
        bad_row: Some(("ab".into(), vec![1, 2])),
    });
    for (k, n) in [255usize, 256, 257, 4096, 32_767].into_iter().enumerate() {
        let word: String = (0..n).map(|i| ch(i * 7 + i / 9 + k)).collect();
        let weights: Vec<i32> = (0..=n).map(|i| ((i * 31 + k) % 201) as i32 - 100).collect();
        out.push(DictCase {
            spec: base.clone(),
            texts: vec![format!("{}{}{}", ch(5), word, ch(6)), word.chars().take(n - 1).collect()],
            new_dict: vec![
                WordSpec { word: word.clone(), weights: weights.clone(), comment: "long, \"word\"".into() },
                WordSpec { word: [ch(5)].iter().collect(), weights: vec![3, -4], comment: String::new() },
            ],
            bad_row: Some((word, weights[..n].to_vec())),
        });
    }
    out
}

/// One record: a word of `len` characters from `alphabet` and `n` weights.
#[derive(Clone, Debug, Serialize, Deserialize)]
pub struct PairCase {
    pub word: String,
    pub n: usize,
}

/// The record check on every small pair (word length, weight count): accepted iff the count is
/// the length in characters plus one - by the library, and by the program for a one-row file.
fn test_pair(c: &PairCase) -> TestResult {
    let len = c.word.chars().count();
    let ok = c.n == len + 1;
    let weights: Vec<i32> = (0..c.n).map(|i| i as i32 - 2).collect();
    let r = WordWeightRecord::new(c.word.clone(), weights.clone(), String::new());
    ensure!(r.is_ok() == ok, "WordWeightRecord::new({:?}, {} weights) is {} (a word of {len} characters needs {} weights)", c.word, c.n, if r.is_ok() { "accepted" } else { "rejected" }, len + 1);
    // the program: a model without dictionary, a file with this one row
    let dir = util::Scratch::new("c19p");
    let (min, mout, csv) = (dir.path("in.zst"), dir.path("out.zst"), dir.path("row.csv"));
    let spec = ModelSpec { char_window: 1, type_window: 1, bias: -1, ..ModelSpec::default() };
    std::fs::write(&min, util::zstd_encode(&spec.to_bytes())).map_err(|e| e.to_string())?;
    let row = format!(
        "word,weights,comment\n{},{},\n",
        csv_field(&c.word),
        weights.iter().map(|x| x.to_string()).collect::<Vec<_>>().join(" ")
    );
    std::fs::write(&csv, row).map_err(|e| e.to_string())?;
    let s = |p: &std::path::PathBuf| p.to_string_lossy().to_string();
    let r = util::run_tool(
        "manipulate_model",
        &["--model-in".into(), s(&min), "--replace-dict".into(), s(&csv), "--model-out".into(), s(&mout)],
        b"",
    )?;
    ensure!(!r.stderr.contains("panicked"), "tool panics on the row ({:?}, {} weights): {}", c.word, c.n, r.stderr);
    if ok {
        ensure!(r.code == Some(0), "tool refuses the valid row ({:?}, {} weights): {}", c.word, c.n, r.stderr.lines().last().unwrap_or(""));
        let out = util::zstd_decode(&std::fs::read(&mout).map_err(|e| format!("no output model: {e}"))?)?;
        let mut want = spec.clone();
        want.dict.push(WordSpec { word: c.word.clone(), weights, comment: String::new() });
        ensure!(out == want.to_bytes(), "tool writes a different model for the valid row ({:?}, {} weights)", c.word, c.n);
    } else {
        ensure!(
            r.code.is_some() && r.code != Some(0),
            "tool accepts a row with {} weights for the word {:?} of {len} characters (exit {:?})",
            c.n,
            c.word,
            r.code
        );
    }
    Ok(Info::new(!ok).class(ok, "matching-count").class(len == 0, "empty-word").class(c.n == 0, "no-weights"))
}

pub fn run(rep: &mut Report) {
    rep.run_enum(
        "record-check-small-pairs",
        "every pair (word of 0..4 characters over one-, two-, three- and four-byte alphabets, 0..7 \
weights) as a single record through WordWeightRecord::new and as a one-row file through \
manipulate_model --replace-dict: accepted iff the weight count is the character count plus one",
        true,
        ["ab,c", "éΩßя", "火星猫だ", "𠀋😀𠮷🎉"].into_iter().flat_map(|alpha| {
            (0..=4usize).flat_map(move |len| {
                (0..=7usize).map(move |n| PairCase { word: alpha.chars().take(len).collect(), n })
            })
        }),
        test_pair,
    );
    rep.run_enum(
        "scale-library",
        "replace_dictionary with 70,000 words and with words of 255 / 256 / 257 / 4,096 / 32,767 \
characters: same clauses as library (a weight list one short of the word length is rejected)",
        false,
        scale_cases().into_iter(),
        |c: &DictCase| test_library(c).map(|mut i| { i.nontrivial = true; i }),
    );
    rep.run_enum(
        "scale-tool",
        "the same dictionaries through manipulate_model --dump-dict / --replace-dict",
        false,
        scale_cases().into_iter().map(|mut c| {
            // the tool case carries the dictionary inside the model
            c.spec.dict = c.new_dict.clone();
            c
        }),
        |c: &DictCase| test_tool(c).map(|mut i| { i.nontrivial = true; i }),
    );
    let n = rep.n(30000, 1500000);
    rep.run_prop(
        "library",
        "generated models x replacement dictionaries x texts: Model::dictionary() returns the \
records of the file; after replace_dictionary the mirror-decoded model equals the original in \
every field except the dictionary, which equals the replacement; per boundary the score changes \
by exactly RefDict(new) - RefDict(old); WordWeightRecord::new rejects wrong weight counts. \
Non-trivial = the replacement changes at least one score.",
        n,
        || case_strategy(ModelCfg { allow_255: false, ..ModelCfg::BOUNDARY }),
        test_library,
    );
    let n = rep.n(2000, 60000);
    rep.run_prop(
        "tool",
        "the real manipulate_model binary (rebuilt from /repo): model with a CSV-hostile \
dictionary (commas, quotes, CR/LF, leading/trailing spaces, '#', multi-byte words; negative and \
full-range i32 weights; arbitrary comments) -> --dump-dict -> --replace-dict with the untouched \
CSV -> --model-out: zstd-decoded output bytes equal the input model bytes; a CSV row with a wrong \
weight count makes the tool exit non-zero without a panic and without writing a different model; \
--dump-dict together with --replace-dict (another dictionary) in one invocation writes the same \
dump as the dump taken alone and a model that carries the replacement (a usage error is accepted). \
Non-trivial = a word needing CSV quoting and a negative weight.",
        n,
        || case_strategy(ModelCfg { allow_255: false, max_ngrams: 3, max_type_ngrams: 2, max_words: 0, max_texts: 1, ..ModelCfg::BOUNDARY }),
        test_tool,
    );
}
