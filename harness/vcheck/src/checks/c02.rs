//! C02 — Tokens are a lossless, ordered partition of the text.

use serde::{Deserialize, Serialize};
use vaporetto::Sentence;
use vcommon::engine::{Info, Report, TestResult};
use vcommon::gen;
use vcommon::oracle::{self, RefSentence, NB, UNK, WB};
use vcommon::{ensure, ensure_eq};

use crate::util;

#[derive(Clone, Debug, Serialize, Deserialize)]
pub struct LabelCase {
    pub text: String,
    pub labels: Vec<u8>,
    pub n_tags: usize,
}

fn to_ref(case: &LabelCase) -> RefSentence {
    let chars: Vec<char> = case.text.chars().collect();
    let tags = (0..chars.len())
        .map(|i| {
            (0..case.n_tags)
                .map(|j| {
                    if (i + j) % 3 == 0 {
                        None
                    } else {
                        Some(format!("t{i}_{j}"))
                    }
                })
                .collect()
        })
        .collect();
    RefSentence {
        chars,
        labels: case.labels.clone(),
        tags,
        n_tags: case.n_tags,
    }
}

pub fn check_tokens(rs: &RefSentence) -> TestResult {
    let s = rs.to_sentence()?;
    let expected = oracle::ref_tokens(&rs.labels);
    let n = rs.chars.len();
    let mut got = vec![];
    // the iterator must terminate: a sentence of n characters has at most n tokens
    for (k, t) in s.iter_tokens().enumerate() {
        ensure!(k <= n, "token iterator does not terminate");
        let (st, en) = (t.start(), t.end());
        ensure!(st < en && en <= n, "token {k} has span {st}..{en} (n = {n})");
        let surface = t.surface().to_string();
        let tags: Vec<Option<String>> =
            t.tags().iter().map(|x| x.as_ref().map(|c| c.to_string())).collect();
        got.push((st, en, surface, tags));
    }
    let want: Vec<(usize, usize, String, Vec<Option<String>>)> = expected
        .iter()
        .map(|t| {
            (
                t.start,
                t.end,
                rs.chars[t.start..t.end].iter().collect::<String>(),
                (0..rs.n_tags)
                    .map(|j| rs.tags[t.end - 1].get(j).cloned().flatten())
                    .collect(),
            )
        })
        .collect();
    ensure_eq!(got, want, "token list differs from the reference segmentation (labels {:?})", rs.labels);
    // the same tokens whichever way the iterator is consumed (for_each / fold / count / last /
    // nth / a partly consumed iterator handed to an adaptor), each reported once
    let spans: Vec<(usize, usize)> = want.iter().map(|w| (w.0, w.1)).collect();
    let mut via_for_each = vec![];
    s.iter_tokens().for_each(|t| via_for_each.push((t.start(), t.end())));
    ensure_eq!(&via_for_each, &spans, "for_each yields other tokens than next() (labels {:?})", rs.labels);
    let via_fold = s.iter_tokens().fold(vec![], |mut v, t| {
        v.push((t.start(), t.end()));
        v
    });
    ensure_eq!(&via_fold, &spans, "fold yields other tokens than next() (labels {:?})", rs.labels);
    ensure_eq!(s.iter_tokens().count(), spans.len(), "count() (labels {:?})", rs.labels);
    ensure_eq!(
        s.iter_tokens().last().map(|t| (t.start(), t.end())),
        spans.last().copied(),
        "last() (labels {:?})",
        rs.labels
    );
    ensure_eq!(
        s.iter_tokens().map(|t| t.surface().to_string()).collect::<String>(),
        want.iter().map(|w| w.2.as_str()).collect::<String>(),
        "surfaces collected into a String"
    );
    for k in [0usize, 1, spans.len().saturating_sub(1), spans.len()] {
        ensure_eq!(
            s.iter_tokens().nth(k).map(|t| (t.start(), t.end())),
            spans.get(k).copied(),
            "nth({k}) (labels {:?})",
            rs.labels
        );
        let mut it = s.iter_tokens();
        for _ in 0..k.min(spans.len()) {
            it.next();
        }
        let rest: Vec<(usize, usize)> = it.map(|t| (t.start(), t.end())).collect();
        ensure_eq!(&rest[..], &spans[k.min(spans.len())..], "rest after {k} x next() (labels {:?})", rs.labels);
        let mut it = s.iter_tokens();
        for _ in 0..k.min(spans.len()) {
            it.next();
        }
        ensure_eq!(it.count(), spans.len() - k.min(spans.len()), "count() after {k} x next()");
    }
    // An iterator that has ended reports nothing further: a consumer that searches first
    // (any / find / position run to the end) and then goes on with the same iterator must not be
    // handed a segment that is no token.
    let mut it = s.iter_tokens();
    while it.next().is_some() {}
    for poll in 1..=3 {
        if let Some(t) = it.next() {
            return Err(format!(
                "the iterator reports the token {}..{} at poll {poll} after it returned None (labels {:?})",
                t.start(),
                t.end(),
                rs.labels
            )
            .into());
        }
    }
    let mut it = s.iter_tokens();
    let _ = it.any(|_| false);
    ensure_eq!(it.count(), 0, "tokens left after any() ran to the end (labels {:?})", rs.labels);
    let mut buf = String::from("stale");
    s.write_tokenized_text(&mut buf);
    ensure_eq!(
        buf,
        oracle::ref_write_tokenized(rs),
        "write_tokenized_text differs from the reference writer"
    );
    if !rs.labels.contains(&UNK) {
        // partition clauses, stated directly
        let mut pos = 0;
        let mut cat = String::new();
        for (st, en, surface, _) in &got {
            ensure!(*st == pos, "tokens not contiguous");
            pos = *en;
            cat.push_str(surface);
        }
        ensure!(pos == n, "tokens do not end at the last character");
        ensure_eq!(cat, rs.text(), "surfaces do not concatenate to the text");
        let breaks: Vec<usize> = got.iter().map(|g| g.1).filter(|&e| e < n).collect();
        let wbs: Vec<usize> =
            rs.labels.iter().enumerate().filter(|(_, &l)| l == WB).map(|(i, _)| i + 1).collect();
        ensure_eq!(breaks, wbs, "token breaks differ from the word boundaries");
    }
    // classification
    let mut skipped = 0;
    let mut consecutive = false;
    let mut skipped_then_token = false;
    {
        // walk the segments
        let mut seg_has_unknown = false;
        let mut prev_skipped = false;
        let mut flush = |has_unknown: bool, prev_skipped: &mut bool| {
            if has_unknown {
                skipped += 1;
                if *prev_skipped {
                    consecutive = true;
                }
                *prev_skipped = true;
            } else {
                if *prev_skipped {
                    skipped_then_token = true;
                }
                *prev_skipped = false;
            }
        };
        for &l in &rs.labels {
            match l {
                WB => {
                    flush(seg_has_unknown, &mut prev_skipped);
                    seg_has_unknown = false;
                }
                UNK => seg_has_unknown = true,
                _ => {}
            }
        }
        flush(seg_has_unknown, &mut prev_skipped);
    }
    let trailing_skipped = {
        let last_wb = rs.labels.iter().rposition(|&l| l == WB).map_or(0, |i| i + 1);
        rs.labels[last_wb.min(rs.labels.len())..].contains(&UNK)
    };
    Ok(Info::new(consecutive || skipped_then_token)
        .class(skipped == 0, "no-skipped-segment")
        .class(skipped == 1, "1-skipped-segment")
        .class(skipped >= 2, ">=2-skipped-segments")
        .class(consecutive, "consecutive-skipped-segments")
        .class(trailing_skipped, "trailing-skipped-segment")
        .class(!rs.labels.is_empty() && rs.labels.iter().all(|&l| l == UNK), "all-unknown")
        .class(rs.n_tags > 0, "with-tags"))
}

fn enum_cases() -> impl Iterator<Item = LabelCase> {
    let texts: [&str; 3] = ["abcdefghi", "aé火𠀋bあ😀cΩ", "a /\\b c/\\"];
    (1..=9usize).flat_map(move |n| {
        texts.into_iter().flat_map(move |t| {
            let text: String = t.chars().take(n).collect();
            [0usize, 2].into_iter().flat_map(move |n_tags| {
                let text = text.clone();
                (0..3usize.pow((n - 1) as u32)).map(move |mut code| {
                    let mut labels = vec![];
                    for _ in 0..n - 1 {
                        labels.push((code % 3) as u8);
                        code /= 3;
                    }
                    LabelCase {
                        text: text.clone(),
                        labels,
                        n_tags,
                    }
                })
            })
        })
    })
}

pub fn run(rep: &mut Report) {
    rep.run_enum(
        "exhaustive-labels",
        "all 3^(n-1) label vectors for n = 1..9 over three texts (ASCII, mixed 1-4-byte, \
delimiter-laden) with 0 and 2 tag slots; token list, spans, surfaces, tags and the tokenized \
writer compared with the reference segmentation. Non-trivial = >= 2 consecutive skipped segments \
or a skipped segment followed by a reported token.",
        true,
        enum_cases(),
        |c: &LabelCase| check_tokens(&to_ref(c)),
    );
    rep.run_enum(
        "long-sentences",
        "sentences of 100,000 characters (ASCII and 4-byte) with periodic label patterns incl. \
long runs of skipped segments",
        false,
        (0..4usize).map(|k| {
            let n = 100_000;
            let text: String = (0..n).map(|i| if k % 2 == 0 { (b'a' + (i % 26) as u8) as char } else { ['𠀋', 'あ', 'b', '😀'][i % 4] }).collect();
            let labels = (0..n - 1).map(|i| match k {
                0 => [1u8, 0, 0, 1, 2, 1, 2, 1, 0][i % 9],
                1 => [2u8, 1, 2, 1, 2, 1, 0, 1][i % 8],
                2 => (i % 3 == 0) as u8,
                _ => if i % 1000 < 990 { 2 } else { 1 },
            }).collect();
            LabelCase { text, labels, n_tags: k % 3 }
        }),
        |c: &LabelCase| check_tokens(&to_ref(c)),
    );
    rep.run_enum(
        "scale-sentences",
        "the deterministic scale sentences shared with C03/C04 (65,535 .. 131,080 characters with \
unknown labels, a 70,000-character token, 70,000 one-character tokens, 255..300 tag columns)",
        false,
        gen::scale_sentences(3, false).into_iter(),
        |r: &RefSentence| check_tokens(r).map(|mut i| { i.nontrivial = true; i }),
    );
    let n = rep.n(50000, 10000000);
    rep.run_prop(
        "random-labels",
        "random annotated sentences up to 60 characters with run-structured label vectors; same \
oracle and non-triviality rule",
        n,
        || gen::annotated_sentence(60, 3, true),
        |rs: &RefSentence| check_tokens(rs),
    );
    let n = rep.n(6000, 600000);
    rep.run_prop(
        "after-predict",
        "generated models x texts: after predict no label is unknown and the tokens partition the \
text at the predicted word boundaries (non-trivial = >= 2 tokens)",
        n,
        || gen::model_case(gen::ModelCfg { min_texts: 2, ..gen::ModelCfg::BOUNDARY }),
        |case: &gen::ModelCase| {
            let p = util::predictor(&case.spec, false)?;
            let mut many = false;
            for (ti, text) in case.texts.iter().enumerate() {
                // odd texts: predict on a sentence that already carries labels and tags
                let mut s = if ti % 2 == 1 {
                    Sentence::from_partial_annotation(&util::partial_annotation_of(text, ti)).map_err(|e| format!("from_partial_annotation: {e}"))?
                } else {
                    Sentence::from_raw(text.clone()).map_err(|e| format!("from_raw: {e}"))?
                };
                p.predict(&mut s);
                // every accessor, both writers and the iterator must work right after predict
                let _ = util::observe(&s);
                let rs = oracle::observe_sentence(&s);
                ensure!(!rs.labels.contains(&UNK), "unknown label after predict");
                let _ = NB;
                check_tokens(&rs)?;
                many |= rs.labels.contains(&WB);
                // a caller resets part of the decisions to unknown (boundaries_mut) and asks the
                // same predictor again: after that prediction, too, nothing is unknown and the
                // tokens are the same partition
                let n_b = s.boundaries().len();
                if n_b > 0 {
                    let (lo, hi) = ((ti * 7 + 1) % n_b, (ti * 7 + 1) % n_b + 1 + (ti * 3) % 4);
                    for b in s.boundaries_mut()[lo..hi.min(n_b)].iter_mut() {
                        *b = vaporetto::CharacterBoundary::Unknown;
                    }
                    p.predict(&mut s);
                    let rs2 = oracle::observe_sentence(&s);
                    ensure!(
                        !rs2.labels.contains(&UNK),
                        "unknown label after predicting again (boundaries {lo}..{hi} had been reset to unknown)"
                    );
                    check_tokens(&rs2)?;
                    ensure_eq!(rs2.labels, rs.labels, "second prediction of the same text gives other boundaries");
                }
            }
            Ok(Info::new(many))
        },
    );
}
