//! C06 — Predicted tags equal the per-token linear classifiers.

use proptest::prelude::*;
use serde::{Deserialize, Serialize};
use vaporetto::Sentence;
use vcommon::engine::{Info, Report, TestResult};
use vcommon::gen::{self, pick, ModelCfg};
use vcommon::mirror::ModelSpec;
use vcommon::oracle::{self, UNK};
#[allow(unused_imports)]
use vcommon::{ensure, ensure_eq};

use crate::util;

#[derive(Clone, Debug, Serialize, Deserialize)]
pub struct TagCase {
    pub spec: ModelSpec,
    pub texts: Vec<String>,
    /// per text: boundary edits applied after predict and before fill_tags:
    /// (position selector, 0/1/2 = set that label, 3 = isolate an occurrence of a tag-model token)
    pub edits: Vec<Vec<(u16, u8)>>,
    /// another model whose predictor predicts and tags the sentence first (no update in between)
    #[serde(default)]
    pub pre: Option<ModelSpec>,
}

pub fn case_strategy(cfg: ModelCfg) -> impl Strategy<Value = TagCase> {
    (
        gen::model_case(cfg),
        proptest::collection::vec(
            proptest::collection::vec((any::<u16>(), prop_oneof![1 => 0u8..3, 2 => Just(3u8)]), 0..=4),
            cfg.max_texts,
        ),
        prop::option::weighted(0.35, gen::model_case(cfg)),
    )
        .prop_map(|(mc, edits, pre)| TagCase {
            spec: mc.spec,
            texts: mc.texts,
            edits,
            pre: pre.map(|m| m.spec),
        })
}

/// Applies the edits of one text to a label vector (pure; mirrored on the real sentence).
pub fn apply_edits(spec: &ModelSpec, text: &[char], labels: &mut [u8], edits: &[(u16, u8)]) {
    for &(sel, kind) in edits {
        if labels.is_empty() {
            return;
        }
        if kind < 3 {
            labels[pick(sel, labels.len())] = kind;
        } else {
            // isolate an occurrence of some tag-model token
            let mut occ = vec![];
            for tm in &spec.tag_models {
                let pat: Vec<char> = tm.token.chars().collect();
                if pat.is_empty() || pat.len() > text.len() {
                    continue;
                }
                for j in 0..=text.len() - pat.len() {
                    if text[j..j + pat.len()] == pat[..] {
                        occ.push((j, j + pat.len()));
                    }
                }
            }
            if occ.is_empty() {
                continue;
            }
            let (st, en) = occ[pick(sel, occ.len())];
            if st > 0 {
                labels[st - 1] = 1;
            }
            for b in st..en - 1 {
                labels[b] = 0;
            }
            if en - 1 < labels.len() {
                labels[en - 1] = 1;
            }
        }
    }
}

pub fn test_case(case: &TagCase) -> TestResult {
    let spec = &case.spec;
    let mut info = Info::default();
    let mut agg = oracle::TagStats::default();
    let mut edited_unknown = false;
    for store in [false, true] {
        let mut p = util::predictor(spec, true)?;
        p.store_tag_scores(store);
        let mut p_pre = match &case.pre {
            Some(spec) => Some(util::predictor(spec, true)?),
            None => None,
        };
        if let Some(pp) = p_pre.as_mut() {
            pp.store_tag_scores(!store);
        }
        for (ti, text) in case.texts.iter().enumerate() {
            let cs = util::chars(text);
            let mut s = Sentence::from_raw(text.clone()).map_err(|e| format!("from_raw: {e}"))?;
            if let Some(pp) = p_pre.as_ref() {
                // an earlier prediction + tagging by a different predictor must leave no trace
                pp.predict(&mut s);
                s.fill_tags();
            }
            p.predict(&mut s);
            if ti % 2 == 1 {
                // tags filled before the boundaries are edited must be overwritten completely
                s.fill_tags();
            }
            let mut labels = util::labels(&s);
            apply_edits(spec, &cs, &mut labels, case.edits.get(ti).map_or(&[][..], |e| &e[..]));
            for (b, &l) in s.boundaries_mut().iter_mut().zip(&labels) {
                *b = oracle::boundary_of(l);
            }
            edited_unknown |= labels.contains(&UNK);
            s.fill_tags();
            ensure_eq!(util::labels(&s), labels, "fill_tags changed the boundaries of {text:?}");
            let (n_tags, flat, per_token, st) = oracle::ref_tags(spec, &cs, &labels);
            ensure_eq!(s.n_tags(), n_tags, "n_tags after fill_tags ({text:?})");
            ensure_eq!(
                util::flat_tags(&s),
                flat,
                "tags differ from the per-token classifiers (text {text:?}, labels {labels:?}, store={store})"
            );
            let toks: Vec<_> = s.iter_tokens().collect();
            ensure_eq!(toks.len(), per_token.len(), "token count of {text:?}");
            for (t, r) in toks.iter().zip(&per_token) {
                ensure_eq!((t.start(), t.end()), (r.token.start, r.token.end), "token span");
                let got: Vec<Option<String>> =
                    t.tags().iter().map(|x| x.as_ref().map(|c| c.to_string())).collect();
                ensure_eq!(got, r.tags, "Token::tags of {:?} in {text:?}", t.surface());
                if store {
                    let cands: Vec<Vec<(String, i64)>> = t
                        .tag_candidates()
                        .into_iter()
                        .map(|c| c.into_iter().map(|(n, sc)| (n.to_string(), sc as i64)).collect())
                        .collect();
                    ensure_eq!(
                        cands,
                        r.candidates,
                        "tag_candidates of token {:?} ({}..{}) in {text:?} (labels {labels:?})",
                        t.surface(),
                        t.start(),
                        t.end()
                    );
                }
            }
            if !store {
                agg.tokens_with_model += st.tokens_with_model;
                agg.contributions += st.contributions;
                agg.multi_cand_contribution |= st.multi_cand_contribution;
                agg.tie |= st.tie;
                agg.rel_pos_gt0 |= st.rel_pos_gt0;
                agg.type_contribution |= st.type_contribution;
                agg.more_than_8_classes |= st.more_than_8_classes;
            }
        }
    }
    info.nontrivial = agg.multi_cand_contribution;
    let cats: Vec<usize> = spec.tag_models.iter().flat_map(|t| t.tags.iter().map(|c| c.len())).collect();
    Ok(info
        .class(agg.tokens_with_model > 0, "token-with-tag-model")
        .class(agg.contributions > 0, "tag-ngram-contribution")
        .class(agg.tie, "tie-between-candidates")
        .class(agg.rel_pos_gt0, "rel_position>0-contribution")
        .class(agg.type_contribution, "type-ngram-contribution")
        .class(agg.more_than_8_classes, ">8-classes(variable bias vector)")
        .class(
            cats.contains(&0) && cats.contains(&1) && cats.iter().any(|&c| c >= 2),
            "mixed-0/1/>=2-candidate-categories",
        )
        .class(spec.tag_models.is_empty(), "no-tag-models")
        .class(
            !spec.tag_models.is_empty() && spec.n_tags() == 0,
            "tag-models-without-categories",
        )
        .class(
            spec.char_ngrams.is_empty() && spec.dict.is_empty()
                && spec.tag_models.iter().any(|t| !t.char_ngrams.is_empty()),
            "char-tag-ngrams-without-boundary-char-entries",
        )
        .class(
            spec.type_ngrams.is_empty() && spec.tag_models.iter().any(|t| !t.type_ngrams.is_empty()),
            "type-tag-ngrams-without-boundary-type-ngrams",
        )
        .class(edited_unknown, "unknown-boundary-before-fill_tags")
        .class(case.pre.is_some(), "tagged-by-another-predictor-first"))
}

pub fn run(rep: &mut Report) {
    let n = rep.n(40000, 2000000);
    rep.run_prop(
        "tags-vs-classifier",
        "generated models with 0-3 tag models (categories with 0/1/>=2 candidates, char and type \
tag n-grams at rel_position 0..=window, tag n-grams that are suffixes/extensions of boundary \
n-grams, small-weight mode to force ties) x texts; boundaries as predicted, then edited (set to \
boundary/non-boundary/unknown, or an occurrence of a tag-model token isolated) before fill_tags; \
store_tag_scores off and on. Sentence::tags, n_tags, Token::tags and Token::tag_candidates are \
compared with the brute-force reference (RefTags). Non-trivial = a token with a tag model \
receives >= 1 tag n-gram contribution in a category with >= 2 candidates.",
        n,
        || case_strategy(ModelCfg::TAGGED),
        test_case,
    );
}
