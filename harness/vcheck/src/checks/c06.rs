//! C06 — Predicted tags equal the per-token linear classifiers.

use proptest::prelude::*;
use serde::{Deserialize, Serialize};
use vaporetto::Sentence;
use vcommon::engine::{Info, Report, TestResult};
use vcommon::gen::{self, pick, ModelCfg};
use vcommon::mirror::ModelSpec;
use vcommon::oracle::{self, UNK};
#[allow(unused_imports)]
use vcommon::{ensure, ensure_eq};

use crate::util;

#[derive(Clone, Debug, Serialize, Deserialize)]
pub struct TagCase {
    pub spec: ModelSpec,
    pub texts: Vec<String>,
    /// per text: boundary edits applied after predict and before fill_tags:
    /// (position selector, 0/1/2 = set that label, 3 = isolate an occurrence of a tag-model token)
    pub edits: Vec<Vec<(u16, u8)>>,
    /// another model whose predictor predicts and tags the sentence first (no update in between)
    #[serde(default)]
    pub pre: Option<ModelSpec>,
}

pub fn case_strategy(cfg: ModelCfg) -> impl Strategy<Value = TagCase> {
    (
        gen::model_case(cfg),
        proptest::collection::vec(
            proptest::collection::vec((any::<u16>(), prop_oneof![1 => 0u8..3, 2 => Just(3u8)]), 0..=4),
            cfg.max_texts,
        ),
        prop::option::weighted(0.35, gen::model_case(cfg)),
    )
        .prop_map(|(mc, edits, pre)| TagCase {
            spec: mc.spec,
            texts: mc.texts,
            edits,
            pre: pre.map(|m| m.spec),
        })
}

/// Applies the edits of one text to a label vector (pure; mirrored on the real sentence).
pub fn apply_edits(spec: &ModelSpec, text: &[char], labels: &mut [u8], edits: &[(u16, u8)]) {
    for &(sel, kind) in edits {
        if labels.is_empty() {
            return;
        }
        if kind < 3 {
            labels[pick(sel, labels.len())] = kind;
        } else {
            // isolate an occurrence of some tag-model token
            let mut occ = vec![];
            for tm in &spec.tag_models {
                let pat: Vec<char> = tm.token.chars().collect();
                if pat.is_empty() || pat.len() > text.len() {
                    continue;
                }
                for j in 0..=text.len() - pat.len() {
                    if text[j..j + pat.len()] == pat[..] {
                        occ.push((j, j + pat.len()));
                    }
                }
            }
            if occ.is_empty() {
                continue;
            }
            let (st, en) = occ[pick(sel, occ.len())];
            if st > 0 {
                labels[st - 1] = 1;
            }
            for b in st..en - 1 {
                labels[b] = 0;
            }
            if en - 1 < labels.len() {
                labels[en - 1] = 1;
            }
        }
    }
}

pub fn test_case(case: &TagCase) -> TestResult {
    let spec = &case.spec;
    let mut info = Info::default();
    let mut agg = oracle::TagStats::default();
    let mut edited_unknown = false;
    for store in [false, true] {
        let mut p = util::predictor(spec, true)?;
        p.store_tag_scores(store);
        let mut p_pre = match &case.pre {
            Some(spec) => Some(util::predictor(spec, true)?),
            None => None,
        };
        if let Some(pp) = p_pre.as_mut() {
            pp.store_tag_scores(!store);
        }
        for (ti, text) in case.texts.iter().enumerate() {
            let cs = util::chars(text);
            let mut s = Sentence::from_raw(text.clone()).map_err(|e| format!("from_raw: {e}"))?;
            if let Some(pp) = p_pre.as_ref() {
                // an earlier prediction + tagging by a different predictor must leave no trace
                pp.predict(&mut s);
                s.fill_tags();
            }
            p.predict(&mut s);
            if ti % 2 == 1 {
                // tags filled before the boundaries are edited must be overwritten completely
                s.fill_tags();
            }
            let mut labels = util::labels(&s);
            apply_edits(spec, &cs, &mut labels, case.edits.get(ti).map_or(&[][..], |e| &e[..]));
            for (b, &l) in s.boundaries_mut().iter_mut().zip(&labels) {
                *b = oracle::boundary_of(l);
            }
            edited_unknown |= labels.contains(&UNK);
            s.fill_tags();
            ensure_eq!(util::labels(&s), labels, "fill_tags changed the boundaries of {text:?}");
            let (n_tags, flat, per_token, st) = oracle::ref_tags(spec, &cs, &labels);
            ensure_eq!(s.n_tags(), n_tags, "n_tags after fill_tags ({text:?})");
            ensure_eq!(
                util::flat_tags(&s),
                flat,
                "tags differ from the per-token classifiers (text {text:?}, labels {labels:?}, store={store})"
            );
            let toks: Vec<_> = s.iter_tokens().collect();
            ensure_eq!(toks.len(), per_token.len(), "token count of {text:?}");
            for (t, r) in toks.iter().zip(&per_token) {
                ensure_eq!((t.start(), t.end()), (r.token.start, r.token.end), "token span");
                let got: Vec<Option<String>> =
                    t.tags().iter().map(|x| x.as_ref().map(|c| c.to_string())).collect();
                ensure_eq!(got, r.tags, "Token::tags of {:?} in {text:?}", t.surface());
                if store {
                    let cands: Vec<Vec<(String, i64)>> = t
                        .tag_candidates()
                        .into_iter()
                        .map(|c| c.into_iter().map(|(n, sc)| (n.to_string(), sc as i64)).collect())
                        .collect();
                    ensure_eq!(
                        cands,
                        r.candidates,
                        "tag_candidates of token {:?} ({}..{}) in {text:?} (labels {labels:?})",
                        t.surface(),
                        t.start(),
                        t.end()
                    );
                }
            }
            if !store {
                agg.tokens_with_model += st.tokens_with_model;
                agg.contributions += st.contributions;
                agg.multi_cand_contribution |= st.multi_cand_contribution;
                agg.tie |= st.tie;
                agg.rel_pos_gt0 |= st.rel_pos_gt0;
                agg.type_contribution |= st.type_contribution;
                agg.more_than_8_classes |= st.more_than_8_classes;
            }
        }
    }
    info.nontrivial = agg.multi_cand_contribution;
    let cats: Vec<usize> = spec.tag_models.iter().flat_map(|t| t.tags.iter().map(|c| c.len())).collect();
    Ok(info
        .class(agg.tokens_with_model > 0, "token-with-tag-model")
        .class(agg.contributions > 0, "tag-ngram-contribution")
        .class(agg.tie, "tie-between-candidates")
        .class(agg.rel_pos_gt0, "rel_position>0-contribution")
        .class(agg.type_contribution, "type-ngram-contribution")
        .class(agg.more_than_8_classes, ">8-classes(variable bias vector)")
        .class(
            cats.contains(&0) && cats.contains(&1) && cats.iter().any(|&c| c >= 2),
            "mixed-0/1/>=2-candidate-categories",
        )
        .class(spec.tag_models.is_empty(), "no-tag-models")
        .class(
            !spec.tag_models.is_empty() && spec.n_tags() == 0,
            "tag-models-without-categories",
        )
        .class(
            spec.char_ngrams.is_empty() && spec.dict.is_empty()
                && spec.tag_models.iter().any(|t| !t.char_ngrams.is_empty()),
            "char-tag-ngrams-without-boundary-char-entries",
        )
        .class(
            spec.type_ngrams.is_empty() && spec.tag_models.iter().any(|t| !t.type_ngrams.is_empty()),
            "type-tag-ngrams-without-boundary-type-ngrams",
        )
        .class(edited_unknown, "unknown-boundary-before-fill_tags")
        .class(case.pre.is_some(), "tagged-by-another-predictor-first"))
}

/// A model with more than 65,536 character patterns (dictionary words, boundary n-grams and tag
/// n-grams share one pattern numbering) and tag models whose tag n-grams sit on both sides of
/// that threshold. Probe texts put every tag-model token in front of every dictionary word: the
/// tag n-gram is absent there, so the token must get its bias-only tag - unless the n-gram really
/// follows (positive controls).
#[derive(Clone, Debug, Serialize, Deserialize)]
pub struct LargeTagCase {
    pub n_words: usize,
    pub n_tokens: usize,
}

pub fn test_large(c: &LargeTagCase) -> TestResult {
    use vcommon::mirror::{TagModelSpec, TagNgramSpec, TagWeightSpec, WordSpec};
    let ch = |i: usize| char::from_u32(0x4E00 + i as u32).unwrap();
    let word = |k: usize| -> String { [ch(k / 300), ch(k % 300)].iter().collect() };
    let token = |j: usize| -> String { char::from_u32(0x3042 + 2 * j as u32).unwrap().to_string() };
    // tag n-grams: one that sorts before all words, one in the middle, one after all words
    let tag_ngram = |j: usize| -> String {
        match j % 3 {
            0 => [ch(280), ch(j)].iter().collect(),
            1 => ['一', char::from_u32(0x3041 + j as u32).unwrap()].iter().collect(),
            _ => [ch(100), char::from_u32(0x30A1 + j as u32).unwrap()].iter().collect(),
        }
    };
    let mut spec = ModelSpec { char_window: 3, type_window: 1, bias: 1, ..ModelSpec::default() };
    for k in 0..c.n_words {
        spec.dict.push(WordSpec { word: word(k), weights: vec![0, 0, 0], comment: String::new() });
    }
    for j in 0..c.n_tokens {
        spec.tag_models.push(TagModelSpec {
            token: token(j),
            tags: vec![vec!["P".into(), "Q".into()]],
            char_ngrams: vec![TagNgramSpec {
                ngram: tag_ngram(j),
                weights: vec![TagWeightSpec { rel_position: 2, weights: vec![0, 100] }],
            }],
            type_ngrams: vec![],
            bias: vec![10, 0],
        });
    }
    let mut p = util::predictor(&spec, true)?;
    p.store_tag_scores(true);
    let mut s = Sentence::default();
    let mut probes = 0u64;
    for j in 0..c.n_tokens {
        // the reference works on the part of the model that can matter for the text
        let small = |w: Option<usize>, text: &str| ModelSpec {
            dict: w.map(|k| spec.dict[k].clone()).into_iter().collect(),
            tag_models: spec.tag_models.iter().filter(|t| text.contains(t.token.as_str())).cloned().collect(),
            ..ModelSpec { char_window: 3, type_window: 1, bias: 1, ..ModelSpec::default() }
        };
        let mut check = |text: String, sub: ModelSpec| -> Result<(), vcommon::engine::Fail> {
            let cs = util::chars(&text);
            s.update_raw(text.clone()).map_err(|e| e.to_string())?;
            p.predict(&mut s);
            s.fill_tags();
            let labels = util::labels(&s);
            let (_, flat, per_token, _) = oracle::ref_tags(&sub, &cs, &labels);
            ensure_eq!(util::flat_tags(&s), flat, "tags of {text:?} (token {j}, {} character patterns in the model)", c.n_words + c.n_tokens);
            let t = s.iter_tokens().next().ok_or("no token")?;
            let cands: Vec<Vec<(String, i64)>> = t.tag_candidates().into_iter().map(|c| c.into_iter().map(|(n, sc)| (n.to_string(), sc as i64)).collect()).collect();
            ensure_eq!(cands, per_token[0].candidates, "tag_candidates of the first token of {text:?}");
            Ok(())
        };
        let t = format!("{}{}", token(j), tag_ngram(j));
        let sub = small(None, &t);
        check(t, sub)?;
        for k in 0..c.n_words {
            let t = format!("{}{}", token(j), word(k));
            let sub = small(Some(k), &t);
            check(t, sub)?;
            probes += 1;
        }
    }
    Ok(Info::new(true).class(c.n_words + c.n_tokens > 65536, ">65536-character-patterns").class(probes > 100000, ">100000-probe-texts"))
}

/// A model with `n` tag models (one per single-character token, in code point order); all but a
/// handful fix their tag, the ambiguous ones sit at the start, in the middle and behind the
/// 65,536th and carry character and type tag n-gram weights.
#[derive(Clone, Debug, Serialize, Deserialize)]
pub struct ManyModelsCase {
    pub n: usize,
}

pub fn test_many_models(c: &ManyModelsCase) -> TestResult {
    use vcommon::mirror::{TagModelSpec, TagNgramSpec, TagWeightSpec};
    let tokens: Vec<char> = (0x3400u32..=0x4DBF)
        .chain(0x4E00..=0x9FFF)
        .chain(0xA000..=0xA48C)
        .chain(0xAC00..=0xD7A3)
        .chain(0x20000..=0x2A6DF)
        .filter_map(char::from_u32)
        .take(c.n)
        .collect();
    ensure_eq!(tokens.len(), c.n, "harness: not enough distinct token characters");
    let ambiguous: Vec<usize> = [0, 7, c.n / 2, 65_535, 65_536, 65_537, 65_543, c.n - 1].into_iter().filter(|&k| k < c.n).collect();
    let mut spec = ModelSpec { char_window: 2, type_window: 2, bias: 1, ..ModelSpec::default() };
    for (k, t) in tokens.iter().enumerate() {
        if ambiguous.contains(&k) {
            spec.tag_models.push(TagModelSpec {
                token: t.to_string(),
                tags: vec![vec!["P".into(), "Q".into()], vec![format!("k{k}")]],
                char_ngrams: vec![TagNgramSpec { ngram: "x".into(), weights: vec![TagWeightSpec { rel_position: 1, weights: vec![0, 100 + (k % 50) as i32] }] }],
                type_ngrams: vec![TagNgramSpec { ngram: vec![2], weights: vec![TagWeightSpec { rel_position: 1, weights: vec![0, 7] }] }],
                bias: vec![10, 0],
            });
        } else {
            spec.tag_models.push(TagModelSpec { token: t.to_string(), tags: vec![vec!["F".into()]], char_ngrams: vec![], type_ngrams: vec![], bias: vec![] });
        }
    }
    let mut p = util::predictor(&spec, true)?;
    p.store_tag_scores(true);
    let mut s = Sentence::default();
    for &k in &ambiguous {
        for follow in ["x", "y", "。"] {
            let text = format!("{}{follow}{}", tokens[k], tokens[(k + 1) % c.n]);
            let sub = ModelSpec {
                tag_models: spec.tag_models.iter().filter(|t| text.contains(t.token.as_str())).cloned().collect(),
                ..ModelSpec { char_window: 2, type_window: 2, bias: 1, ..ModelSpec::default() }
            };
            let cs = util::chars(&text);
            s.update_raw(text.clone()).map_err(|e| e.to_string())?;
            p.predict(&mut s);
            s.fill_tags();
            let labels = util::labels(&s);
            let (_, flat, per_token, _) = oracle::ref_tags(&sub, &cs, &labels);
            ensure_eq!(util::flat_tags(&s), flat, "tags of {text:?} (tag model number {k} of {})", c.n);
            let t = s.iter_tokens().next().ok_or("no token")?;
            let cands: Vec<Vec<(String, i64)>> = t.tag_candidates().into_iter().map(|c| c.into_iter().map(|(n, sc)| (n.to_string(), sc as i64)).collect()).collect();
            ensure_eq!(cands, per_token[0].candidates, "tag_candidates of the first token of {text:?} (tag model number {k} of {})", c.n);
        }
    }
    Ok(Info::new(true).class(c.n > 65536, ">65536-tag-models"))
}

/// Texts longer than 65,535 characters (and exactly around that length) with a small tagged
/// model: tokens with tag models occur all along the text, also beyond character 65,536.
pub fn long_text_cases() -> Vec<TagCase> {
    use vcommon::mirror::{NgramSpec, TagModelSpec, TagNgramSpec, TagWeightSpec, WordSpec};
    let mut spec = ModelSpec { char_window: 3, type_window: 2, bias: -2, ..ModelSpec::default() };
    for (g, w) in [("ab", vec![1, -2, 3, -4, 5]), ("b", vec![2, 0, -1, 0, 1, 7]), ("aab", vec![9, -9, 4, 1]), ("火", vec![1, 1, 1, 1, 1, 1])] {
        spec.char_ngrams.push(NgramSpec { ngram: g.into(), weights: w });
    }
    spec.type_ngrams.push(NgramSpec { ngram: vec![2, 2], weights: vec![3, -1, 2] });
    spec.dict.push(WordSpec { word: "aba".into(), weights: vec![10, -10, -10, 10], comment: String::new() });
    for (tok, ng, rel) in [("a", "ab", 1u8), ("火", "火b", 1), ("ab", "a", 0), ("b", "aa", 2)] {
        spec.tag_models.push(TagModelSpec {
            token: tok.into(),
            tags: vec![vec!["X".into(), "Y".into(), "Z".into()], vec!["only".into()]],
            char_ngrams: vec![TagNgramSpec { ngram: ng.into(), weights: vec![TagWeightSpec { rel_position: rel, weights: vec![0, 4, -1] }] }],
            type_ngrams: vec![TagNgramSpec { ngram: vec![2], weights: vec![TagWeightSpec { rel_position: 0, weights: vec![1, 0, 2] }] }],
            bias: vec![2, 1, 0],
        });
    }
    [65_535usize, 65_536, 65_537, 70_000, 131_080]
        .into_iter()
        .map(|n| TagCase {
            spec: spec.clone(),
            texts: vec![(0..n).map(|i| ['a', 'b', 'a', 'a', '火', 'b', 'é'][(i * 7 + i / 5) % 7]).collect()],
            edits: vec![vec![]],
            pre: None,
        })
        .collect()
}

/// Tag models with many classes: a category with 255 / 256 / 300 candidates, a token with 12
/// categories, bias vectors of 7 / 8 / 9 / 16 / 17 entries.
pub fn many_class_cases() -> Vec<TagCase> {
    use vcommon::mirror::{TagModelSpec, TagNgramSpec, TagWeightSpec};
    let mut out = vec![];
    for (k, sizes) in [vec![300usize], vec![255, 2], vec![256], vec![7], vec![8], vec![9], vec![2, 2, 2, 2, 2, 2, 2, 2, 2, 2, 2, 2], vec![16, 1, 0, 17], vec![3, 5], vec![4, 4]].into_iter().enumerate() {
        let total: usize = sizes.iter().filter(|&&n| n >= 2).sum();
        let mut spec = ModelSpec { char_window: 2, type_window: 1, bias: 1, ..ModelSpec::default() };
        for (ti, tok) in ["a", "あ", "ab"].into_iter().enumerate() {
            spec.tag_models.push(TagModelSpec {
                token: tok.into(),
                tags: sizes.iter().enumerate().map(|(c, &n)| (0..n).map(|j| format!("c{c}t{j}")).collect()).collect(),
                char_ngrams: vec![
                    TagNgramSpec { ngram: "b".into(), weights: vec![TagWeightSpec { rel_position: 1, weights: (0..total).map(|j| ((j * 7 + ti + k) % 13) as i32 - 6).collect() }] },
                    TagNgramSpec { ngram: "a".into(), weights: vec![TagWeightSpec { rel_position: 0, weights: (0..total).map(|j| ((j * 3 + ti) % 5) as i32 - 2).collect() }] },
                ],
                type_ngrams: vec![TagNgramSpec { ngram: vec![2], weights: vec![TagWeightSpec { rel_position: 0, weights: (0..total).map(|j| (j % 4) as i32).collect() }] }],
                bias: (0..total).map(|j| ((j * 11 + k) % 9) as i32 - 4).collect(),
            });
        }
        out.push(TagCase {
            spec,
            texts: vec!["a".into(), "ab".into(), "あab".into(), "baあb".into(), "abab".into()],
            edits: vec![vec![], vec![(0, 0)], vec![], vec![(1, 1)], vec![(1, 1), (0, 0), (2, 0)]],
            pre: None,
        });
    }
    out
}

pub fn run(rep: &mut Report) {
    rep.run_enum(
        "many-classes",
        "deterministic tag models with a category of 255 / 256 / 300 candidates, a token with 12 \
categories and score vectors of 7 / 8 / 9 / 16 / 17 entries: same oracle as tags-vs-classifier",
        false,
        many_class_cases().into_iter(),
        |c: &TagCase| test_case(c).map(|mut i| { i.nontrivial = true; i }),
    );
    rep.run_enum(
        "long-texts",
        "texts of 65,535, 65,536, 65,537, 70,000 and 131,080 characters (1-, 2- and 3-byte) with a \
small model whose four tag-model tokens occur all along the text: same oracle as \
tags-vs-classifier",
        false,
        long_text_cases().into_iter(),
        |c: &TagCase| test_case(c).map(|mut i| { i.nontrivial = true; i }),
    );
    rep.run_enum(
        "large-models",
        "a model with 70,000 dictionary words + tag n-grams (more than 65,536 character patterns in \
one numbering) and 6 tag-model tokens; every token in front of every dictionary word (420,000 \
probe texts) and in front of its own tag n-gram: tags and stored candidate scores equal RefTags \
on the relevant part of the model",
        false,
        vec![LargeTagCase { n_words: 70000, n_tokens: 6 }, LargeTagCase { n_words: 300, n_tokens: 3 }].into_iter(),
        test_large,
    );
    rep.run_enum(
        "many-tag-models",
        "models with 70,000 and 300 tag models (more than 65,536 token numbers); ambiguous tokens \
with character and type tag n-gram weights at the start, in the middle and behind number 65,535: \
tags and stored candidate scores equal RefTags",
        false,
        vec![ManyModelsCase { n: 70000 }, ManyModelsCase { n: 300 }].into_iter(),
        test_many_models,
    );
    let n = rep.n(40000, 2000000);
    rep.run_prop(
        "tags-vs-classifier",
        "generated models with 0-3 tag models (categories with 0/1/>=2 candidates, char and type \
tag n-grams at rel_position 0..=window, tag n-grams that are suffixes/extensions of boundary \
n-grams, small-weight mode to force ties) x texts; boundaries as predicted, then edited (set to \
boundary/non-boundary/unknown, or an occurrence of a tag-model token isolated) before fill_tags; \
store_tag_scores off and on. Sentence::tags, n_tags, Token::tags and Token::tag_candidates are \
compared with the brute-force reference (RefTags). Non-trivial = a token with a tag model \
receives >= 1 tag n-gram contribution in a category with >= 2 candidates.",
        n,
        || case_strategy(ModelCfg::TAGGED),
        test_case,
    );
}
