//! C15 — Post-filters apply exactly their rule and nothing else.

use proptest::prelude::*;
use serde::{Deserialize, Serialize};
use unicode_segmentation::UnicodeSegmentation;
use vaporetto::CharacterType;
use vaporetto_rules::sentence_filters::{
    ConcatGraphemeClustersFilter, KyteaWsConstFilter, PatternMatchTagger, SplitLinebreaksFilter,
};
use vaporetto_rules::SentenceFilter;
use vcommon::engine::{Info, Report, TestResult};
use vcommon::gen::pick;
use vcommon::oracle::{self, RefSentence, NB, UNK, WB};
#[allow(unused_imports)]
use vcommon::{ensure, ensure_eq};

use crate::util;

const CLUSTER_POOL: &[char] = &[
    'a', 'e', '1', '2', 'あ', 'い', 'ア', 'ｶ', 'ﾞ', '火', '星', '\r', '\n', '\u{200d}', '👨', '👩',
    '👧', '🇯', '🇵', '🇺', '\u{3099}', '\u{0301}', '\u{fe0f}', '\u{1f3fd}', '👏', '\u{1100}',
    '\u{1161}', '\u{11a8}', ' ', '。', 'Ｚ', '９', '\u{0e33}', '\u{0903}', '\u{0600}', '\t',
    // neighbours of CR / LF and the other line separators (must NOT be treated as line breaks)
    '\u{b}', '\u{c}', '\u{85}', '\u{2028}', '\u{2029}', '\u{1c}', '\u{1e}', '\u{9}', '\u{e}',
    // characters whose type and UTF-8 width do not go together as usual: 4-byte kanji, 2-byte
    // letters, 3-byte digits / letters, 4-byte symbols
    '𠀋', '𠮷', '𪚲', 'é', 'Ω', 'я', '４', 'ｂ', '😀',
];

const TYPES: [CharacterType; 6] = [
    CharacterType::Digit,
    CharacterType::Roman,
    CharacterType::Hiragana,
    CharacterType::Katakana,
    CharacterType::Kanji,
    CharacterType::Other,
];

#[derive(Clone, Debug, Serialize, Deserialize)]
pub struct FilterCase {
    pub sentence: RefSentence,
    /// 0..=5 type filter, 6 line breaks, 7 grapheme clusters, 8 pattern tagger
    pub filter: u8,
    /// tagger rules: (surface, tag row)
    pub rules: Vec<(String, Vec<Option<String>>)>,
}

pub fn case_strategy(filter: impl Strategy<Value = u8>) -> impl Strategy<Value = FilterCase> {
    (
        prop_oneof![
            12 => proptest::collection::vec(any::<u16>(), 1..=20),
            2 => proptest::collection::vec(any::<u16>(), 21..=70),
            1 => proptest::collection::vec(any::<u16>(), 71..=300),
        ],
        proptest::collection::vec(0u8..3, 300),
        0usize..=3,
        proptest::collection::vec(proptest::collection::vec(prop::option::weighted(0.4, 0u8..6), 3), 300),
        filter,
        proptest::collection::vec(
            (any::<u16>(), 1usize..=3, proptest::collection::vec(prop::option::weighted(0.7, 0u8..6), 0..=4)),
            0..=4,
        ),
        0u8..3,
        any::<u16>(),
        (0u8..4, any::<u16>(), any::<u16>()),
    )
        .prop_map(|(text, labels, n_tags, tags, filter, rules, pool_mode, type_sel, (sparse, sa, sb))| {
            let chars: Vec<char> = text
                .iter()
                .map(|&i| match pool_mode {
                    // few distinct characters -> runs of one type, repeated surfaces
                    0 => CLUSTER_POOL[pick(i, 6)],
                    1 => CLUSTER_POOL[11 + pick(i, 17)],
                    _ => CLUSTER_POOL[pick(i, CLUSTER_POOL.len())],
                })
                .collect();
            let n = chars.len();
            let mut labels = labels[..n - 1].to_vec();
            // long tokens: uniformly random labels never leave a token of more than a few
            // characters (surfaces of 64, 128, 256 ... bytes need 22+ characters)
            match sparse {
                1 => {
                    for (i, l) in labels.iter_mut().enumerate() {
                        if (i * 7 + sa as usize) % 29 != 0 {
                            *l = NB;
                        }
                    }
                }
                2 if n > 2 => {
                    let (a, b) = (pick(sa, n - 1), pick(sb, n - 1));
                    for (i, l) in labels.iter_mut().enumerate() {
                        *l = if i == a || i == b { WB } else { NB };
                    }
                }
                _ => {}
            }
            let tags: Vec<Vec<Option<String>>> = (0..n)
                // (tag 5 is the empty string: a tag that is present - set through tags_mut - and
                // empty, which no parser produces)
                .map(|i| (0..n_tags).map(|j| tags[i][j].map(|t| if t == 5 { String::new() } else { format!("T{t}") })).collect())
                .collect();
            let sentence = RefSentence {
                chars,
                labels,
                tags,
                n_tags,
            };
            // rules keyed by actual token surfaces (and sometimes by a non-token substring)
            let toks = oracle::ref_tokens(&sentence.labels);
            let mut rs: Vec<(String, Vec<Option<String>>)> = vec![];
            for (sel, len, row) in rules {
                let surface: String = if !toks.is_empty() && sel & 3 != 0 {
                    let t = &toks[pick(sel, toks.len())];
                    sentence.chars[t.start..t.end].iter().collect()
                } else {
                    let st = pick(sel, n);
                    sentence.chars[st..(st + len).min(n)].iter().collect()
                };
                if rs.iter().any(|r| r.0 == surface) {
                    continue;
                }
                rs.push((surface, row.into_iter().map(|t| t.map(|t| format!("R{t}"))).collect()));
            }
            // mostly filter on a type that actually occurs in the text
            let filter = if filter < 6 && type_sel & 3 != 0 {
                oracle::type_of(sentence.chars[pick(type_sel, n)]) - 1
            } else {
                filter
            };
            FilterCase {
                sentence,
                filter,
                rules: rs,
            }
        })
}

fn build_filter(case: &FilterCase) -> Box<dyn SentenceFilter> {
    match case.filter {
        0..=5 => Box::new(KyteaWsConstFilter::new(TYPES[case.filter as usize])),
        6 => Box::new(SplitLinebreaksFilter),
        7 => Box::new(ConcatGraphemeClustersFilter),
        _ => {
            let mut m = hashbrown::HashMap::new();
            for (k, v) in &case.rules {
                m.insert(k.clone(), v.clone());
            }
            Box::new(PatternMatchTagger::new(m))
        }
    }
}

/// Reference result on the *before* state.
fn expected(case: &FilterCase) -> RefSentence {
    let rs = &case.sentence;
    let mut out = rs.clone();
    // normalise rows to n_tags entries
    out.tags = (0..rs.chars.len())
        .map(|i| (0..rs.n_tags).map(|j| rs.tags[i].get(j).cloned().flatten()).collect())
        .collect();
    let n = rs.chars.len();
    match case.filter {
        0..=5 => {
            let t = TYPES[case.filter as usize] as u8;
            let types = oracle::types_of(&rs.chars);
            for i in 0..n - 1 {
                if types[i] == t && types[i + 1] == t {
                    out.labels[i] = NB;
                }
            }
        }
        6 => {
            let lb = |c: char| c == '\r' || c == '\n';
            for i in 0..n - 1 {
                if lb(rs.chars[i]) || lb(rs.chars[i + 1]) {
                    out.labels[i] = WB;
                }
            }
        }
        7 => {
            let text = rs.text();
            let mut pos = 0;
            for g in text.graphemes(true) {
                let k = g.chars().count();
                for i in pos..pos + k - 1 {
                    out.labels[i] = NB;
                }
                pos += k;
            }
        }
        _ => {
            for tok in oracle::ref_tokens(&rs.labels) {
                let surface: String = rs.chars[tok.start..tok.end].iter().collect();
                if let Some((_, row)) = case.rules.iter().find(|r| r.0 == surface) {
                    for j in 0..rs.n_tags {
                        if out.tags[tok.end - 1][j].is_none() {
                            out.tags[tok.end - 1][j] = row.get(j).cloned().flatten();
                        }
                    }
                }
            }
        }
    }
    out
}

fn max_token_bytes(rs: &RefSentence) -> usize {
    oracle::ref_tokens(&rs.labels)
        .iter()
        .map(|t| rs.chars[t.start..t.end].iter().map(|c| c.len_utf8()).sum::<usize>())
        .max()
        .unwrap_or(0)
}

pub fn test_case(case: &FilterCase) -> TestResult {
    let mut s = case.sentence.to_sentence()?;
    let before = util::observe(&s);
    let f = build_filter(case);
    f.filter(&mut s);
    let after = util::observe(&s);
    util::check_consistent(&after)?;
    let want = expected(case);
    ensure_eq!(&after.text, &before.text, "filter changed the text");
    ensure_eq!(&after.char_types, &before.char_types, "filter changed the character types");
    ensure_eq!(after.n_tags, before.n_tags, "filter changed n_tags");
    ensure_eq!(&after.scores, &before.scores, "filter changed the scores");
    ensure_eq!(&after.labels, &want.labels, "labels after filter {} differ from the rule", case.filter);
    ensure_eq!(&after.tags, &want.flat_tags(), "tags after filter {} differ from the rule", case.filter);
    // idempotence
    f.filter(&mut s);
    let again = util::observe(&s);
    ensure_eq!(&again, &after, "filter {} is not idempotent", case.filter);
    // the same filter object used on another sentence in between: filters keep no state
    let mut other = vaporetto::Sentence::from_tokenized("zz/Q1/Q2/Q3 y/R1 xxx/S1/S2/S3 w/T 12 a\\/b").map_err(|e| e.to_string())?;
    f.filter(&mut other);
    let mut s2 = case.sentence.to_sentence_via(0)?;
    f.filter(&mut s2);
    ensure_eq!(&util::observe(&s2), &after, "filter {} gives another result after it was used on a different sentence", case.filter);
    let changed_labels = before.labels != after.labels;
    let changed_tags = before.tags != after.tags;
    let untouched_eligible = match case.filter {
        0..=5 | 7 => before
            .labels
            .iter()
            .zip(&after.labels)
            .any(|(b, a)| b == a && *b != NB),
        6 => before
            .labels
            .iter()
            .zip(&after.labels)
            .any(|(b, a)| b == a && *b != WB),
        _ => after.tags.iter().any(|t| t.is_none()) && before.n_tags > 0,
    };
    let unknown_overwritten = before
        .labels
        .iter()
        .zip(&after.labels)
        .any(|(b, a)| *b == UNK && a != b);
    let name: &'static str = match case.filter {
        0..=5 => "type-filter",
        6 => "linebreak-filter",
        7 => "grapheme-filter",
        _ => "pattern-tagger",
    };
    Ok(Info::new((changed_labels || changed_tags) && untouched_eligible)
        .class(true, name)
        .class(changed_labels, "changed-boundaries")
        .class(changed_tags, "changed-tags")
        .class(unknown_overwritten, "unknown-label-overwritten")
        .class(before.text.graphemes(true).any(|g| g.chars().count() > 2), "cluster>2-chars")
        .class(max_token_bytes(&case.sentence) >= 64, "token>=64-bytes")
        .class(max_token_bytes(&case.sentence) >= 256, "token>=256-bytes")
        .class(
            case.filter == 8 && changed_tags && case.rules.iter().any(|r| r.0.len() >= 64),
            "rule-surface>=64-bytes-applied",
        ))
}

pub fn run(rep: &mut Report) {
    let rule = "generated annotated sentences (any labels incl. unknown, any tags) over a pool \
biased to CR/LF, ZWJ sequences, regional indicators, combining marks, emoji modifiers, Hangul \
jamo, prepend/spacing marks and the six character types: after-state equals an independent \
reference rule applied to the before-state (every other boundary/tag unchanged), text/types/ \
n_tags/scores untouched, f(f(s)) = f(s). Non-trivial = the filter changes >= 1 boundary/tag and \
leaves >= 1 eligible-looking one untouched.";
    rep.run_enum(
        "scale-sentences",
        "every filter (six type filters, line breaks, grapheme clusters, a pattern tagger keyed by \
three token surfaces) on the deterministic scale sentences (65,535 .. 131,080 characters, a \
70,000-character token, 70,000 one-character tokens, 255..300 tag columns)",
        false,
        vcommon::gen::scale_sentences(3, false).into_iter().flat_map(|r| {
            (0u8..9).map(move |filter| {
                let toks = oracle::ref_tokens(&r.labels);
                let rules = toks
                    .iter()
                    .take(3)
                    .map(|t| (r.chars[t.start..t.end].iter().collect::<String>(), vec![Some("R".to_string()), None, Some("R3".to_string())]))
                    .collect();
                FilterCase { sentence: r.clone(), filter, rules }
            })
        }),
        |c: &FilterCase| test_case(c).map(|mut i| { i.nontrivial = true; i }),
    );
    let n = rep.n(100000, 3000000);
    rep.run_prop("type-filter", rule, n, || case_strategy(0u8..6), test_case);
    rep.run_prop("linebreak-filter", rule, n, || case_strategy(Just(6u8)), test_case);
    rep.run_prop("grapheme-filter", rule, n, || case_strategy(Just(7u8)), test_case);
    rep.run_prop("pattern-tagger", rule, n, || case_strategy(Just(8u8)), test_case);
    rep.assume("unicode-segmentation (version pinned by Cargo.lock) defines what an extended grapheme cluster is; the reference segments the whole text once");
}
