//! C08 — Reusing a sentence or sharing a predictor never changes results.

use std::sync::Arc;

use proptest::prelude::*;
use serde::{Deserialize, Serialize};
use vaporetto::{CharacterType, Predictor, Sentence};
use vaporetto_rules::sentence_filters::{
    ConcatGraphemeClustersFilter, KyteaWsConstFilter, PatternMatchTagger, SplitLinebreaksFilter,
};
use vaporetto_rules::SentenceFilter;
use vcommon::engine::{Info, Report, TestResult};
use vcommon::gen::{self, pick, ModelCfg};
use vcommon::mirror::ModelSpec;
use vcommon::oracle;
#[allow(unused_imports)]
use vcommon::{ensure, ensure_eq};

use crate::checks::c05::{string_strategy, Fmt};
use crate::util::{self, Obs};

fn assert_send_sync<T: Send + Sync>() {}

#[derive(Clone, Debug, Serialize, Deserialize)]
pub enum Op {
    Update(Fmt, String),
    /// predictor index 0..6: model (A,B) x {no tags, tags, tags + score storing}
    Predict(u8),
    FillTags,
    ResetTags(usize),
    /// 0..=5 type filter, 6 line breaks, 7 grapheme clusters, 8 pattern tagger
    Filter(u8),
    Edit(u16, u8),
}

#[derive(Clone, Debug, Serialize, Deserialize)]
pub struct ReuseCase {
    pub a: ModelSpec,
    pub b: ModelSpec,
    pub ops: Vec<Op>,
    pub final_text: String,
    pub final_pred: u8,
    pub final_fill: bool,
}

const TYPES: [CharacterType; 6] = [
    CharacterType::Digit,
    CharacterType::Roman,
    CharacterType::Hiragana,
    CharacterType::Katakana,
    CharacterType::Kanji,
    CharacterType::Other,
];

fn build_filter(k: u8, rule_surface: &str) -> Box<dyn SentenceFilter> {
    match k {
        0..=5 => Box::new(KyteaWsConstFilter::new(TYPES[k as usize])),
        6 => Box::new(SplitLinebreaksFilter),
        7 => Box::new(ConcatGraphemeClustersFilter),
        _ => {
            let mut m = hashbrown::HashMap::new();
            m.insert(rule_surface.to_string(), vec![Some("RULE".to_string()), None, Some("R3".to_string())]);
            Box::new(PatternMatchTagger::new(m))
        }
    }
}

fn build_predictors(a: &ModelSpec, b: &ModelSpec) -> Result<Vec<Predictor>, String> {
    let mut ps = vec![];
    for spec in [a, b] {
        for mode in 0..3 {
            let mut p = util::predictor(spec, mode > 0)?;
            if mode == 2 {
                p.store_tag_scores(true);
            }
            ps.push(p);
        }
    }
    Ok(ps)
}

/// Full observation after the final segment, including candidate scores when they are defined
/// (score-storing predictor and fill_tags called).
#[derive(Debug, PartialEq)]
struct FinalObs {
    obs: Obs,
    candidates: Option<Vec<Vec<Vec<(String, i32)>>>>,
}

fn final_segment<'p>(
    s: &mut Sentence<'static, 'p>,
    case: &ReuseCase,
    ps: &'p [Predictor],
) -> Result<FinalObs, String> {
    s.update_raw(case.final_text.clone()).map_err(|e| format!("final update_raw: {e}"))?;
    let pi = case.final_pred as usize;
    ps[pi].predict(s);
    let tags_capable = pi % 3 > 0;
    if case.final_fill && tags_capable {
        s.fill_tags();
    }
    let obs = util::observe(s);
    let candidates = if case.final_fill && pi % 3 == 2 {
        Some(
            s.iter_tokens()
                .map(|t| {
                    t.tag_candidates()
                        .into_iter()
                        .map(|c| c.into_iter().map(|(n, sc)| (n.to_string(), sc)).collect())
                        .collect()
                })
                .collect(),
        )
    } else {
        None
    };
    Ok(FinalObs { obs, candidates })
}

pub fn test_case(case: &ReuseCase) -> TestResult {
    let ps = build_predictors(&case.a, &case.b)?;
    // fresh sentence
    let mut fresh = Sentence::from_raw("x").map_err(|e| e.to_string())?;
    let want = final_segment(&mut fresh, case, &ps)?;
    // reused sentence
    let mut s = Sentence::default();
    let mut linked: Option<usize> = None;
    let mut left_tag_state = false;
    let mut failed_update = false;
    let mut switched_predictor = false;
    let mut switched_since_update = false;
    let mut refilled_after_switch = false;
    let mut last_pred: Option<usize> = None;
    let mut last_pred_on_text: Option<usize> = None;
    let mut stored_scores = false;
    let rule_surface: String = case.final_text.chars().take(1).collect();
    for (k, op) in case.ops.iter().enumerate() {
        match op {
            Op::Update(fmt, x) => {
                let r = match fmt {
                    Fmt::Raw => s.update_raw(x.clone()),
                    Fmt::Tokenized => s.update_tokenized(x),
                    Fmt::Partial => s.update_partial_annotation(x),
                };
                linked = None;
                switched_since_update = false;
                last_pred_on_text = None;
                match r {
                    Ok(()) => left_tag_state |= s.n_tags() > 0,
                    Err(_) => failed_update = true,
                }
            }
            Op::Predict(pi) => {
                let pi = *pi as usize % ps.len();
                ps[pi].predict(&mut s);
                if let Some(lp) = last_pred {
                    switched_predictor |= lp != pi;
                }
                if let Some(lp) = last_pred_on_text {
                    switched_since_update |= lp / 3 != pi / 3;
                }
                last_pred_on_text = Some(pi);
                last_pred = Some(pi);
                linked = Some(pi);
                // whatever the history (edited boundaries, earlier predictions by this or another
                // predictor), a prediction gives what a fresh sentence with this text gets
                let mut f = Sentence::from_raw(s.as_raw_text().to_string()).map_err(|e| e.to_string())?;
                ps[pi].predict(&mut f);
                ensure_eq!(
                    (s.boundaries(), s.boundary_scores()),
                    (f.boundaries(), f.boundary_scores()),
                    "after op {k} {op:?}: prediction on the reused sentence differs from a fresh one"
                );
            }
            Op::FillTags => {
                // documented panic if the linked predictor was built without tag prediction
                if let Some(pi) = linked {
                    if pi % 3 > 0 {
                        s.fill_tags();
                        left_tag_state = true;
                        stored_scores |= pi % 3 == 2;
                        refilled_after_switch |= switched_since_update;
                        // tagging through the used sentence (whatever was predicted, filled,
                        // reset or filtered before on it) gives what a fresh sentence with this
                        // text, this predictor and these boundaries gets
                        let mut f = Sentence::from_raw(s.as_raw_text().to_string()).map_err(|e| e.to_string())?;
                        ps[pi].predict(&mut f);
                        f.boundaries_mut().copy_from_slice(s.boundaries());
                        f.fill_tags();
                        ensure_eq!(
                            util::observe(&s),
                            util::observe(&f),
                            "after op {k} {op:?}: tags filled on the reused sentence differ from a fresh one (predictor {pi})"
                        );
                        if pi % 3 == 2 {
                            let cands = |x: &Sentence| -> Vec<Vec<Vec<(String, i32)>>> {
                                x.iter_tokens()
                                    .map(|t| {
                                        t.tag_candidates()
                                            .into_iter()
                                            .map(|c| c.into_iter().map(|(n, sc)| (n.to_string(), sc)).collect())
                                            .collect()
                                    })
                                    .collect()
                            };
                            ensure_eq!(cands(&s), cands(&f), "after op {k} {op:?}: tag candidates on the reused sentence differ from a fresh one");
                        }
                    }
                } else {
                    s.fill_tags(); // no linked predictor: documented no-op
                }
            }
            Op::ResetTags(n) => {
                s.reset_tags(*n);
                left_tag_state |= *n > 0;
            }
            Op::Filter(f) => build_filter(*f, &rule_surface).filter(&mut s),
            Op::Edit(sel, l) => {
                let bs = s.boundaries_mut();
                if !bs.is_empty() {
                    let i = pick(*sel, bs.len());
                    bs[i] = oracle::boundary_of(*l);
                }
            }
        }
        // the observation function itself must work after every operation
        let o = util::observe(&s);
        util::check_consistent(&o).map_err(|e| format!("after op {k} {op:?}: {e}"))?;
    }
    let got = final_segment(&mut s, case, &ps)?;
    ensure_eq!(
        got,
        want,
        "reused sentence differs from a fresh one for text {:?}, predictor {}, fill_tags={}",
        case.final_text,
        case.final_pred,
        case.final_fill
    );
    Ok(Info::new(left_tag_state || failed_update)
        .class(left_tag_state, "history-leaves-tag-state")
        .class(failed_update, "failed-update-in-history")
        .class(switched_predictor, "predictor-switch")
        .class(refilled_after_switch, "tags-filled-after-predictor-switch-on-one-text")
        .class(stored_scores, "scores-stored-in-history")
        .class(
            left_tag_state && (case.final_pred % 3 == 0 || !case.final_fill),
            "tags-then-no-tags",
        )
        .class(case.ops.iter().any(|o| matches!(o, Op::Filter(_))), "filter-in-history")
        .class(
            matches!(case.ops.iter().rev().find(|o| matches!(o, Op::Update(..))), Some(Op::Update(Fmt::Raw, t)) if t.len() == case.final_text.len() && *t != case.final_text),
            "previous-text-of-equal-byte-length",
        )
        .class(
            case.final_text.is_ascii() && matches!(case.ops.iter().rev().find(|o| matches!(o, Op::Update(..))), Some(Op::Update(Fmt::Raw, t)) if t.len() == case.final_text.len() && !t.is_ascii()),
            "ascii-text-after-multi-byte-text-of-equal-byte-length",
        ))
}

fn op_strategy(texts: Vec<String>) -> impl Strategy<Value = Op> {
    let texts2 = texts.clone();
    prop_oneof![
        3 => (any::<u16>(), prop_oneof![Just(Fmt::Raw), Just(Fmt::Tokenized), Just(Fmt::Partial)])
            .prop_map(move |(i, f)| {
                let t = &texts[pick(i, texts.len())];
                let r = oracle::RefSentence {
                    chars: t.chars().collect(),
                    labels: t.chars().skip(1).enumerate().map(|(k, _)| ((k + i as usize) % 3) as u8).collect(),
                    tags: t.chars().enumerate().map(|(k, _)| if (k + i as usize) % 2 == 0 { vec![Some("T".into()), None, Some("U".into())] } else { vec![] }).collect(),
                    n_tags: 3,
                };
                match f {
                    Fmt::Raw => Op::Update(f, t.clone()),
                    Fmt::Tokenized => {
                        let mut r = r;
                        for l in r.labels.iter_mut() { if *l == 2 { *l = 1; } }
                        Op::Update(f, oracle::ref_write_tokenized(&r))
                    }
                    Fmt::Partial => Op::Update(f, oracle::ref_write_partial(&r)),
                }
            }),
        2 => (prop_oneof![Just(Fmt::Raw), Just(Fmt::Tokenized), Just(Fmt::Partial)], string_strategy(8))
            .prop_map(|(f, x)| Op::Update(f, x)),
        4 => (0u8..6).prop_map(Op::Predict),
        3 => Just(Op::FillTags),
        1 => (0usize..=4).prop_map(Op::ResetTags),
        2 => (0u8..9).prop_map(Op::Filter),
        1 => (any::<u16>(), 0u8..3).prop_map(|(s, l)| Op::Edit(s, l)),
    ]
    .prop_map(move |op| { let _ = &texts2; op })
}

/// Histories of predictions by several tag predictors on one loaded text: the scratch state of
/// one prediction (automaton states, scores, tag scores) is what the next one starts from.
fn switch_ops(texts: Vec<String>) -> impl Strategy<Value = Vec<Op>> {
    (
        any::<u16>(),
        proptest::collection::vec((prop_oneof![Just(1u8), Just(2u8), Just(4u8), Just(5u8)], 0u8..7, any::<u16>()), 2..=6),
    )
        .prop_map(move |(ti, steps)| {
            let mut ops = vec![Op::Update(Fmt::Raw, texts[pick(ti, texts.len())].clone())];
            for (p, k, sel) in steps {
                ops.push(Op::Predict(p));
                match k {
                    0 => ops.push(Op::FillTags),
                    1 => {
                        ops.push(Op::Edit(sel, (sel % 3) as u8));
                        ops.push(Op::FillTags);
                    }
                    // the tags are wiped or rewritten between the prediction and the tagging
                    2 => {
                        ops.push(Op::ResetTags((sel % 4) as usize));
                        ops.push(Op::FillTags);
                    }
                    3 => {
                        ops.push(Op::FillTags);
                        ops.push(Op::ResetTags((sel % 4) as usize));
                        ops.push(Op::Edit(sel, (sel % 3) as u8));
                        ops.push(Op::FillTags);
                    }
                    4 => {
                        ops.push(Op::Filter((sel % 9) as u8));
                        ops.push(Op::FillTags);
                    }
                    _ => {}
                }
            }
            ops.push(Op::FillTags);
            ops
        })
}

/// Model B as a thinned copy of model A: the same tag models and windows, some n-grams removed,
/// so that A's automata match where B's do not and pattern numbers of the two overlap.
fn thinned(a: &ModelSpec, mask: u64) -> ModelSpec {
    let mut b = a.clone();
    let mut k = 0u32;
    let mut keep = || {
        k += 1;
        (mask >> (k % 64)) & 1 == 1
    };
    b.type_ngrams.retain(|_| keep());
    b.char_ngrams.retain(|_| keep());
    for t in b.tag_models.iter_mut() {
        t.type_ngrams.retain(|_| keep());
        t.char_ngrams.retain(|_| keep());
    }
    b
}

pub fn case_strategy() -> impl Strategy<Value = ReuseCase> {
    (
        prop_oneof![
            4 => gen::model_case(ModelCfg { min_texts: 2, ..ModelCfg::TAGGED }).boxed(),
            1 => gen::model_case_ascii(ModelCfg { min_texts: 2, ..ModelCfg::TAGGED }).boxed(),
        ],
        gen::model_case(ModelCfg::TAGGED),
        any::<u16>(),
        0u8..6,
        prop::bool::weighted(0.7),
        (0u8..3, any::<u64>(), 0u8..3),
    )
        .prop_flat_map(|(a, b, ti, fp, ff, (thin, mask, hist))| {
            let mut texts = a.texts.clone();
            let b_spec = if thin == 0 {
                thinned(&a.spec, mask)
            } else {
                texts.extend(b.texts.iter().cloned());
                b.spec
            };
            let final_text = texts[pick(ti, texts.len())].clone();
            let ops = if hist == 0 {
                switch_ops(texts).boxed()
            } else {
                proptest::collection::vec(op_strategy(texts), 0..=10).boxed()
            };
            (Just(a.spec), Just(b_spec), ops, Just(final_text), Just(fp), Just(ff))
        })
        .prop_map(|(a, b, mut ops, final_text, final_pred, final_fill)| {
            // every other history ends with a text of the same number of bytes as the final text
            // but another layout (three-byte characters before an ASCII text, ASCII before
            // anything else): tables sized by the byte length fit, their contents do not
            if (ops.len() + final_pred as usize) % 2 == 0 && !final_text.is_empty() {
                let n = final_text.len();
                let prev = if final_text.is_ascii() {
                    format!("{}{}", "火".repeat(n / 3), "a".repeat(n % 3))
                } else {
                    "x".repeat(n)
                };
                if prev != final_text {
                    ops.push(Op::Update(Fmt::Raw, prev));
                    if final_fill {
                        ops.push(Op::Predict(final_pred));
                    }
                }
            }
            ReuseCase {
                a,
                b,
                ops,
                final_text,
                final_pred,
                final_fill,
            }
        })
}

#[derive(Clone, Debug, Serialize, Deserialize)]
pub struct ThreadCase {
    pub spec: ModelSpec,
    pub texts: Vec<String>,
}

fn observe_predicted<'p>(p: &'p Predictor, s: &mut Sentence<'static, 'p>, text: &str) -> Result<(Obs, Vec<Vec<Vec<(String, i32)>>>), String> {
    s.update_raw(text.to_string()).map_err(|e| e.to_string())?;
    p.predict(s);
    s.fill_tags();
    let cands = s
        .iter_tokens()
        .map(|t| {
            t.tag_candidates()
                .into_iter()
                .map(|c| c.into_iter().map(|(n, sc)| (n.to_string(), sc)).collect())
                .collect()
        })
        .collect();
    Ok((util::observe(s), cands))
}

pub fn test_threads(case: &ThreadCase, n_threads: usize) -> TestResult {
    let mut p = util::predictor(&case.spec, true)?;
    p.store_tag_scores(true);
    let p = Arc::new(p);
    let mut want = vec![];
    for t in &case.texts {
        let mut s = Sentence::default();
        want.push(observe_predicted(&p, &mut s, t)?);
    }
    let want = Arc::new(want);
    let texts = Arc::new(case.texts.clone());
    let results: Vec<Result<(), String>> = std::thread::scope(|scope| {
        let mut hs = vec![];
        for th in 0..n_threads {
            let (p, want, texts) = (p.clone(), want.clone(), texts.clone());
            hs.push(scope.spawn(move || {
                let mut s = Sentence::default();
                let n = texts.len();
                for round in 0..3 {
                    for k in 0..n {
                        // every thread walks the texts in its own order
                        let i = (k * (1 + th % 3) + th + round) % n;
                        let got = observe_predicted(&p, &mut s, &texts[i])?;
                        if got != want[i] {
                            return Err(format!(
                                "thread {th}: result for {:?} differs from the single-threaded run",
                                texts[i]
                            ));
                        }
                    }
                }
                Ok(())
            }));
        }
        hs.into_iter()
            .map(|h| h.join().unwrap_or_else(|_| Err("worker thread panicked".into())))
            .collect()
    });
    for r in results {
        r?;
    }
    Ok(Info::new(case.texts.len() >= 2 && !case.spec.tag_models.is_empty()))
}

/// Cold-start stress: a FRESH predictor with a very large tag table is hit by all threads at the
/// same instant (barrier), so that anything computed lazily on first use is raced. The expected
/// result comes from a separate predictor instance used single-threaded.
#[derive(Clone, Debug, Serialize, Deserialize)]
pub struct ColdCase {
    pub n_tagged_tokens: usize,
    pub trials: usize,
    pub threads: usize,
}

fn cold_model(n: usize) -> (ModelSpec, Vec<String>) {
    use vcommon::mirror::{TagModelSpec, WordSpec};
    let hira: Vec<char> = ('ぁ'..='ん').collect();
    let mut spec = ModelSpec { bias: -10, ..ModelSpec::default() };
    let words = ["あい", "ながいたんご", "うえ", "みじか", "とてもとてもながいたんご"];
    for w in words {
        let l = w.chars().count();
        let mut weights = vec![-60; l + 1];
        weights[0] = 60;
        weights[l] = 60;
        spec.dict.push(WordSpec { word: w.to_string(), weights, comment: String::new() });
    }
    let tm = |tok: String, k: usize| TagModelSpec {
        token: tok,
        tags: vec![vec![format!("P{}", k % 13)], vec![format!("Y{}", k % 7)]],
        char_ngrams: vec![],
        type_ngrams: vec![],
        bias: vec![],
    };
    // the long tokens come last in insertion order; the map order is the hash order anyway
    let mut k = 0;
    'outer: for a in &hira {
        for b in &hira {
            for c in &hira {
                if k >= n {
                    break 'outer;
                }
                spec.tag_models.push(tm([*a, *b, *c].iter().collect(), k));
                k += 1;
            }
        }
    }
    for (i, w) in words.iter().enumerate() {
        if !spec.tag_models.iter().any(|t| t.token == *w) {
            spec.tag_models.push(tm(w.to_string(), 1000 + i));
        }
    }
    let texts = vec![
        "あいながいたんごうえ".to_string(),
        "みじかとてもとてもながいたんごあい".to_string(),
        "うえみじかながいたんご".to_string(),
    ];
    (spec, texts)
}

pub fn test_cold_start(case: &ColdCase) -> TestResult {
    let (spec, texts) = cold_model(case.n_tagged_tokens);
    let bytes = spec.to_bytes();
    let build = || -> Result<Predictor, String> {
        let m = vaporetto::Model::read(bytes.as_slice()).map_err(|e| e.to_string())?;
        let mut p = Predictor::new(m, true).map_err(|e| e.to_string())?;
        p.store_tag_scores(true);
        Ok(p)
    };
    let reference = build()?;
    let mut want = vec![];
    for t in &texts {
        let mut s = Sentence::default();
        want.push(observe_predicted(&reference, &mut s, t)?);
    }
    // sanity: the long tokens are tagged in the single-threaded run
    ensure!(
        want[0].0.tokenized.contains("ながいたんご/"),
        "harness: the cold-start model does not tag its long token: {:?}",
        want[0].0.tokenized
    );
    let want = Arc::new(want);
    let texts = Arc::new(texts);
    for trial in 0..case.trials {
        let p = Arc::new(build()?); // fresh: nothing has been computed on it yet
        let barrier = Arc::new(std::sync::Barrier::new(case.threads));
        let results: Vec<Result<(), String>> = std::thread::scope(|scope| {
            let mut hs = vec![];
            for th in 0..case.threads {
                let (p, want, texts, barrier) = (p.clone(), want.clone(), texts.clone(), barrier.clone());
                hs.push(scope.spawn(move || {
                    let mut s = Sentence::default();
                    barrier.wait();
                    // a little skew so that some threads arrive while others are mid-way
                    for _ in 0..(th % 4) * 50 {
                        std::hint::spin_loop();
                    }
                    for k in 0..texts.len() {
                        let i = (k + th) % texts.len();
                        let got = observe_predicted(&p, &mut s, &texts[i])?;
                        if got != want[i] {
                            return Err(format!(
                                "trial {trial}, thread {th}: first use of a fresh shared predictor gives {:?}, single-threaded {:?}",
                                got.0.tokenized, want[i].0.tokenized
                            ));
                        }
                    }
                    Ok(())
                }));
            }
            hs.into_iter().map(|h| h.join().unwrap_or_else(|_| Err("worker thread panicked".into()))).collect()
        });
        for r in results {
            r?;
        }
    }
    Ok(Info::new(true))
}

/// A model in which every token is one character and has one tag category with `n_cands`
/// candidates (more than the 8 scores a fixed-size buffer holds), each with its own bias and tag
/// n-grams, plus many texts: whatever scratch space tag prediction uses for such tokens is busy in
/// all threads at once.
fn many_class_case(n_cands: usize) -> ThreadCase {
    use vcommon::mirror::{TagModelSpec, TagNgramSpec, TagWeightSpec};
    let alphabet = ['a', 'b', 'c', 'あ', '火', '1'];
    let mut spec = ModelSpec { char_window: 1, type_window: 1, bias: 1, ..ModelSpec::default() };
    for (ti, &c) in alphabet.iter().enumerate() {
        let k = n_cands + ti % 2;
        spec.tag_models.push(TagModelSpec {
            token: c.to_string(),
            tags: vec![(0..k).map(|j| format!("{c}{j}")).collect()],
            char_ngrams: alphabet
                .iter()
                .enumerate()
                .map(|(ai, &a)| TagNgramSpec {
                    ngram: a.to_string(),
                    weights: vec![TagWeightSpec { rel_position: 1, weights: (0..k).map(|j| ((j * 7 + ai * 3 + ti) % 11) as i32 - 5).collect() }],
                })
                .collect(),
            type_ngrams: vec![],
            bias: (0..k).map(|j| ((j * 5 + ti) % 9) as i32).collect(),
        });
    }
    let texts = (0..300usize)
        .map(|t| (0..40).map(|i| alphabet[(i * (t % 5 + 1) + t + i / 3) % alphabet.len()]).collect())
        .collect();
    ThreadCase { spec, texts }
}

/// Thread-stress sub-check alone (used by the ThreadSanitizer build in the thorough tier).
pub fn run_threads_only(rep: &mut Report) {
    assert_send_sync::<Predictor>();
    let n = rep.n(120, 600);
    rep.run_prop(
        "threads-tsan",
        "the thread stress of C08 (one Arc<Predictor> shared by 16 threads) executed in a \
ThreadSanitizer build: any reported data race aborts the run and is turned into a violation by the \
supervisor script",
        n,
        || {
            gen::model_case(ModelCfg { min_texts: 3, max_texts: 8, ..ModelCfg::TAGGED })
                .prop_map(|mc| ThreadCase { spec: mc.spec, texts: mc.texts })
        },
        move |c: &ThreadCase| test_threads(c, 16),
    );
    rep.run_enum(
        "threads-many-classes-tsan",
        "tokens with 9..40 tag candidates under the same ThreadSanitizer stress",
        false,
        [9usize, 17, 40].into_iter().map(many_class_case),
        |c: &ThreadCase| test_threads(c, 16).map(|mut i| { i.nontrivial = true; i }),
    );
}

pub fn run(rep: &mut Report) {
    assert_send_sync::<Predictor>();
    let n = rep.n(25000, 1000000);
    rep.run_prop(
        "histories",
        "two generated models A, B -> six predictors (no tags / tags / tags + score storing); \
history of 0-10 operations {update_raw|update_tokenized|update_partial_annotation (valid with \
tags, or arbitrary/invalid strings), predict(P), fill_tags (only where documented as legal), \
reset_tags(k), the four filters, boundary edits} on ONE sentence, the observation function run \
after every operation; then update_raw(x); predict(P); [fill_tags]. The full observation (scores, \
boundaries, tags, n_tags, tokens, both writers, and candidate scores when storing is on and \
fill_tags ran) must equal that of a freshly created sentence. Non-trivial = the history leaves \
tag state behind or contains a failed update.",
        n,
        case_strategy,
        test_case,
    );
    rep.run_enum(
        "long-reuse",
        "deterministic histories that alternate texts of 65,535 .. 131,080 characters with short \
ones on one sentence (predict with and without tags / stored scores, fill_tags, filters in \
between): the final result must equal a fresh sentence's - buffers sized by an earlier, longer \
or shorter text must leave no trace",
        false,
        {
            let spec = crate::checks::c06::long_text_cases()[0].spec.clone();
            let long = |n: usize, k: usize| -> String { (0..n).map(|i| ['a', 'b', 'a', 'a', '火', 'b', 'é'][(i * 7 + i / 5 + k) % 7]).collect() };
            let mut cases = vec![];
            for (k, (first, last)) in [(70_000usize, 5usize), (5, 70_000), (65_536, 65_535), (65_535, 65_537), (131_080, 300), (300, 131_080)].into_iter().enumerate() {
                cases.push(ReuseCase {
                    a: spec.clone(),
                    b: spec.clone(),
                    ops: vec![
                        Op::Update(Fmt::Raw, long(first, k)),
                        Op::Predict((k % 3) as u8 + 1),
                        Op::FillTags,
                        Op::Filter(7),
                        Op::Update(Fmt::Raw, long(first / 2 + 1, k + 1)),
                        Op::Predict(((k + 1) % 3) as u8 + 3),
                        Op::Filter(6),
                    ],
                    final_text: long(last, k + 2),
                    final_pred: ((k + 2) % 6) as u8,
                    final_fill: k % 2 == 0,
                });
            }
            cases.into_iter()
        },
        |c: &ReuseCase| test_case(c).map(|mut i| { i.nontrivial = true; i }),
    );
    let threads = if rep.quick() { 8 } else { 16 };
    let n = rep.n(400, 10000);
    rep.run_prop(
        "threads",
        "one Arc<Predictor> (tags + score storing) shared by 8 (quick) / 16 (thorough) threads, \
each predicting the generated texts three times in its own order through its own reused \
sentence; every result must equal the single-threaded one. Predictor: Send + Sync is asserted at \
compile time. Non-trivial = >= 2 texts and a model with tag models.",
        n,
        || {
            gen::model_case(ModelCfg { min_texts: 3, max_texts: 8, ..ModelCfg::TAGGED })
                .prop_map(|mc| ThreadCase { spec: mc.spec, texts: mc.texts })
        },
        move |c: &ThreadCase| test_threads(c, threads),
    );
    rep.run_enum(
        "threads-many-classes",
        "the same thread stress with deterministic models in which every one-character token has \
9, 10, 16, 17 or 40 tag candidates in one category (more scores than a fixed 8-slot buffer \
holds) and 300 texts of 40 tokens: 16 threads, every result must equal the single-threaded one",
        false,
        [9usize, 10, 16, 17, 40].into_iter().map(many_class_case),
        |c: &ThreadCase| test_threads(c, 16).map(|mut i| { i.nontrivial = true; i }),
    );
    let (trials, threads) = if rep.quick() { (6, 16) } else { (40, 16) };
    rep.run_enum(
        "threads-cold-start",
        "a fresh predictor with 60,000 / 200,000 tagged tokens is used for the first time by 16 \
threads released by a barrier (6 / 40 trials each): every thread must get the single-threaded \
result of a separate predictor instance (targets state that is initialised lazily on first use)",
        false,
        vec![
            ColdCase { n_tagged_tokens: 60_000, trials, threads },
            ColdCase { n_tagged_tokens: 200_000, trials, threads },
        ]
        .into_iter(),
        test_cold_start,
    );
    rep.assume("the harness does not own the thread schedule: Predictor has no synchronisation to instrument; the schedule clause is covered by the compile-time Send+Sync assertion and differential stress only");
    rep.assume("Token::tag_candidates is observed only where its documented precondition holds (score-storing predictor and fill_tags called)");
}
