//! C07 — Model files round-trip; partial or foreign files are rejected.

use std::io::{self, Read, Write};
use std::sync::atomic::{AtomicU64, Ordering};

use proptest::prelude::*;
use serde::{Deserialize, Serialize};
use vaporetto::{Model, Predictor, Sentence};
use vcommon::engine::{Info, Report, TestResult};
use vcommon::gen::{self, ModelCfg};
use vcommon::mirror::{ModelSpec, MODEL_MAGIC};
use vcommon::{ensure, ensure_eq};

use crate::util;

static TRUNCATIONS: AtomicU64 = AtomicU64::new(0);
static FAULTS: AtomicU64 = AtomicU64::new(0);
static HEADERS: AtomicU64 = AtomicU64::new(0);

#[derive(Clone, Debug, Serialize, Deserialize)]
pub struct GoldenCase {
    pub path: String,
}

#[derive(Clone, Debug, Serialize, Deserialize)]
pub struct FileCase {
    pub spec: ModelSpec,
    pub texts: Vec<String>,
    pub trailing: Vec<u8>,
}

/// Reader that yields `chunk` bytes per call and fails with an I/O error after `fail_after` bytes.
struct FaultyReader<'a> {
    data: &'a [u8],
    pos: usize,
    chunk: usize,
    fail_after: Option<usize>,
}

impl Read for FaultyReader<'_> {
    fn read(&mut self, buf: &mut [u8]) -> io::Result<usize> {
        if let Some(k) = self.fail_after {
            if self.pos >= k {
                return Err(io::Error::new(io::ErrorKind::Other, "injected read fault"));
            }
        }
        let mut n = buf.len().min(self.chunk).min(self.data.len() - self.pos);
        if let Some(k) = self.fail_after {
            n = n.min(k - self.pos);
        }
        buf[..n].copy_from_slice(&self.data[self.pos..self.pos + n]);
        self.pos += n;
        Ok(n)
    }
}

/// Writer that accepts `limit` bytes, then fails (error or Ok(0)).
struct FaultyWriter {
    written: Vec<u8>,
    limit: usize,
    zero: bool,
}

impl Write for FaultyWriter {
    fn write(&mut self, buf: &[u8]) -> io::Result<usize> {
        if self.written.len() >= self.limit {
            return if self.zero {
                Ok(0)
            } else {
                Err(io::Error::new(io::ErrorKind::Other, "injected write fault"))
            };
        }
        let n = buf.len().min(self.limit - self.written.len());
        self.written.extend_from_slice(&buf[..n]);
        Ok(n)
    }
    fn flush(&mut self) -> io::Result<()> {
        Ok(())
    }
}

fn predictions(model: Model, texts: &[String], tags: bool) -> Result<Vec<(Vec<i32>, Vec<u8>, Vec<Option<String>>)>, String> {
    let p = Predictor::new(model, tags).map_err(|e| format!("Predictor::new: {e}"))?;
    let mut out = vec![];
    for t in texts {
        let mut s = Sentence::from_raw(t.clone()).map_err(|e| e.to_string())?;
        p.predict(&mut s);
        if tags {
            s.fill_tags();
        }
        out.push((s.boundary_scores().to_vec(), util::labels(&s), util::flat_tags(&s)));
    }
    Ok(out)
}

pub fn test_bytes(b: &[u8], texts: &[String], trailing: &[u8], full_faults: bool) -> TestResult {
    // --- round trip
    let m = Model::read(b).map_err(|e| format!("Model::read rejects a well-formed file: {e}"))?;
    let v = m.to_vec().map_err(|e| format!("to_vec: {e}"))?;
    ensure!(v == b, "to_vec() differs from the bytes the model was read from");
    let mut w = vec![];
    m.write(&mut w).map_err(|e| format!("write: {e}"))?;
    ensure!(w == b, "write() differs from to_vec()");
    // serialising is repeatable and follows the model when its dictionary is edited in between
    // (the only mutation the public API offers): to_vec() and write() keep agreeing, and the
    // result reads back without a remainder
    if b.len() <= 1 << 16 {
        ensure!(m.to_vec().ok().as_deref() == Some(b), "a second to_vec() differs from the first");
        let mut me = Model::read_slice(b).map_err(|e| e.to_string())?.0;
        let _ = me.to_vec();
        let mut dict: Vec<vaporetto::WordWeightRecord> = me.dictionary().to_vec();
        if dict.pop().is_none() {
            dict.push(vaporetto::WordWeightRecord::new("追加".into(), vec![1, -2, 3], "c".into()).map_err(|e| e.to_string())?);
        }
        me.replace_dictionary(dict);
        let ve = me.to_vec().map_err(|e| format!("to_vec after replace_dictionary on a model that was serialised before: {e}"))?;
        let mut we = vec![];
        me.write(&mut we).map_err(|e| format!("write: {e}"))?;
        ensure!(ve == we, "to_vec() ({} bytes) and write() ({} bytes) differ after the dictionary was edited", ve.len(), we.len());
        let (back, rest) = Model::read_slice(&ve).map_err(|e| format!("the edited model's serialisation does not read back: {e}"))?;
        ensure!(rest.is_empty(), "the edited model's serialisation reads back with {} bytes left over", rest.len());
        ensure!(back.to_vec().ok() == Some(ve), "the edited model re-serialises differently");
    }
    for chunk in [1usize, 5, 4096] {
        if chunk > 5 && b.len() <= chunk {
            continue;
        }
        let mut sw = crate::util::ShortWriter { written: vec![], chunk };
        m.write(&mut sw).map_err(|e| format!("write into a writer accepting {chunk} bytes per call: {e}"))?;
        ensure!(sw.written == b, "write() into a writer accepting {chunk} bytes per call wrote {} of {} bytes", sw.written.len(), b.len());
    }
    let mut joined = b.to_vec();
    joined.extend_from_slice(trailing);
    let (m2, rest) = Model::read_slice(&joined).map_err(|e| format!("read_slice: {e}"))?;
    ensure_eq!(rest, trailing, "read_slice rest");
    ensure!(m2.to_vec().map_err(|e| e.to_string())? == b, "read_slice model re-serialises differently");
    // several models back to back in one buffer (what the returned rest is for), and single
    // bytes that look like markers
    if b.len() < 4_000_000 {
        let twice = [b, b, trailing].concat();
        let (_, r1) = Model::read_slice(&twice).map_err(|e| format!("read_slice (two models in one buffer): {e}"))?;
        ensure!(r1 == &twice[b.len()..], "rest after the first of two models has {} bytes instead of {}", r1.len(), twice.len() - b.len());
        let (_, r2) = Model::read_slice(r1).map_err(|e| format!("read_slice (second of two models): {e}"))?;
        ensure_eq!(r2, trailing, "rest after the second of two models");
        for x in [0u8, 1, 2, 0x0a, 0xff] {
            let one = [b, &[x][..]].concat();
            let (_, r) = Model::read_slice(&one).map_err(|e| format!("read_slice (+ one byte {x:#04x}): {e}"))?;
            ensure_eq!(r, &[x][..], "rest after a model followed by the single byte {x:#04x}");
        }
    }
    let m3 = Model::read(FaultyReader { data: &joined, pos: 0, chunk: 1 + b.len() % 3, fail_after: None })
        .map_err(|e| format!("read from a short-read reader: {e}"))?;
    ensure!(m3.to_vec().map_err(|e| e.to_string())? == b, "model read in small chunks differs");
    let tags = true;
    let p1 = predictions(m, texts, tags)?;
    let p2 = predictions(m2, texts, tags)?;
    let p3 = predictions(m3, texts, tags)?;
    ensure_eq!(&p1, &p2, "re-read model (slice) predicts differently");
    ensure_eq!(&p1, &p3, "re-read model (reader) predicts differently");

    // --- crash points: every proper prefix is rejected by both readers
    let step = if full_faults || b.len() <= 600 { 1 } else { 1 + b.len() / 400 };
    let mut k = 0;
    while k < b.len() {
        let pre = &b[..k];
        ensure!(Model::read(pre).is_err(), "read accepts the {k}-byte prefix of a {}-byte model", b.len());
        ensure!(
            Model::read_slice(pre).is_err(),
            "read_slice accepts the {k}-byte prefix of a {}-byte model",
            b.len()
        );
        TRUNCATIONS.fetch_add(2, Ordering::Relaxed);
        // always cover the header region and the last bytes densely
        k += if k < 64 || k + 64 >= b.len() { 1 } else { step };
    }
    // --- foreign headers
    for i in 0..MODEL_MAGIC.len() {
        // every other value of every header byte
        for v in 0..=255u8 {
            if v == MODEL_MAGIC[i] {
                continue;
            }
            // (files above 64 KiB: three single-bit changes per byte and every value of the last
            // byte; the full enumeration runs on every smaller file)
            if b.len() > 65536 && i + 1 != MODEL_MAGIC.len() && ![1u8, 0x20, 0x80].contains(&(v ^ MODEL_MAGIC[i])) {
                continue;
            }
            joined[i] = v;
            let (r1, r2) = (Model::read(joined.as_slice()).is_err(), Model::read_slice(&joined).is_err());
            joined[i] = MODEL_MAGIC[i];
            ensure!(r1, "read accepts a header with byte {i} changed to {v:#04x}");
            ensure!(r2, "read_slice accepts a header with byte {i} changed to {v:#04x}");
            HEADERS.fetch_add(2, Ordering::Relaxed);
        }
    }
    // textual variants of the header line: other line ends, padding, case, other versions
    let line = &MODEL_MAGIC[..MODEL_MAGIC.len() - 1];
    let mut variants: Vec<Vec<u8>> = vec![];
    for tail in [&b"\r\n"[..], b"\r", b" \n", b"\t\n", b"\n\n", b"", b"\0", b" ", b"\x0c\n"] {
        variants.push([line, tail].concat());
    }
    variants.push([&b" "[..], MODEL_MAGIC].concat());
    variants.push([&b"\n"[..], MODEL_MAGIC].concat());
    variants.push([&b"\xef\xbb\xbf"[..], MODEL_MAGIC].concat());
    variants.push(MODEL_MAGIC.to_ascii_lowercase());
    variants.push(MODEL_MAGIC.to_ascii_uppercase());
    let text = String::from_utf8_lossy(MODEL_MAGIC).to_string();
    for v in ["0.5.1", "0.4.5", "0.5", "0.5.00", "0.5.0.0", "1.5.0", "0.6.0", "v0.5.0", "0.5.0-rc1", "0,5,0"] {
        variants.push(text.replace("0.5.0", v).into_bytes());
    }
    variants.push(text.replace(' ', "  ").into_bytes());
    variants.push(text.replace(' ', "\t").into_bytes());
    variants.push(text.replace(' ', "_").into_bytes());
    variants.push(text.replace(' ', "").into_bytes());
    for hv in variants {
        let x = [hv.as_slice(), &b[MODEL_MAGIC.len()..]].concat();
        // (input that still begins with the genuine header - the variant itself, or a shorter
        // variant completed by the first body bytes - is a damaged body, not a foreign header)
        if x.starts_with(MODEL_MAGIC) {
            continue;
        }
        ensure!(Model::read(x.as_slice()).is_err(), "read accepts the header {:?}", String::from_utf8_lossy(&hv));
        ensure!(Model::read_slice(&x).is_err(), "read_slice accepts the header {:?}", String::from_utf8_lossy(&hv));
        HEADERS.fetch_add(2, Ordering::Relaxed);
    }
    for cut in [1usize, 5, 24] {
        // shorter first line / longer first line
        let mut x = b[..MODEL_MAGIC.len() - 1 - cut.min(MODEL_MAGIC.len() - 1)].to_vec();
        x.push(b'\n');
        x.extend_from_slice(&b[MODEL_MAGIC.len()..]);
        ensure!(Model::read(x.as_slice()).is_err(), "read accepts a shorter header line");
        ensure!(Model::read_slice(&x).is_err(), "read_slice accepts a shorter header line");
        let mut y = b[..MODEL_MAGIC.len() - 1].to_vec();
        y.extend_from_slice(&b"xxxxxxxxxxxxxxxxxxxxxxxxxxxxxx"[..cut]);
        y.push(b'\n');
        y.extend_from_slice(&b[MODEL_MAGIC.len()..]);
        ensure!(Model::read(y.as_slice()).is_err(), "read accepts a longer header line");
        ensure!(Model::read_slice(&y).is_err(), "read_slice accepts a longer header line");
        HEADERS.fetch_add(4, Ordering::Relaxed);
    }
    // --- fault sequences
    let mut k = 0;
    while k <= b.len() {
        for chunk in [usize::MAX, 2] {
            let r = Model::read(FaultyReader { data: b, pos: 0, chunk, fail_after: Some(k) });
            if k < b.len() {
                ensure!(r.is_err(), "read succeeds although the reader fails after {k} of {} bytes", b.len());
            } else {
                let m = r.map_err(|e| format!("read fails although every byte was delivered: {e}"))?;
                ensure!(m.to_vec().map_err(|e| e.to_string())? == b, "model differs (fault after the end)");
            }
            FAULTS.fetch_add(1, Ordering::Relaxed);
        }
        if k < b.len() {
            for zero in [false, true] {
                let m = Model::read(b).map_err(|e| e.to_string())?;
                let mut fw = FaultyWriter { written: vec![], limit: k, zero };
                let r = m.write(&mut fw);
                ensure!(r.is_err(), "write succeeds although the writer fails after {k} of {} bytes", b.len());
                ensure!(fw.written[..] == b[..k], "bytes written before the fault are not a prefix of the file");
                FAULTS.fetch_add(1, Ordering::Relaxed);
            }
        }
        k += if k < 64 || k + 64 >= b.len() { 1 } else { step };
    }
    Ok(Info::default())
}

pub fn test_case(case: &FileCase) -> TestResult {
    let b = case.spec.to_bytes();
    let full = b.len() <= 4096;
    let mut info = test_bytes(&b, &case.texts, &case.trailing, full)?;
    let s = &case.spec;
    info.nontrivial = (!s.char_ngrams.is_empty() || !s.type_ngrams.is_empty()) && !s.dict.is_empty();
    Ok(info
        .class(!s.tag_models.is_empty(), "with-tag-models")
        .class(
            s.char_ngrams.is_empty() && s.type_ngrams.is_empty() && s.dict.is_empty() && s.tag_models.is_empty(),
            "empty-model",
        )
        .class(s.dict.iter().any(|d| d.word.chars().count() > 7), "long-word")
        .class(!case.trailing.is_empty(), "trailing-bytes")
        .class(b.len() > 1024, "file>1KiB"))
}

fn edge_cases() -> Vec<FileCase> {
    use vcommon::mirror::{NgramSpec, WordSpec};
    let texts = vec!["ab".to_string(), "火星猫".to_string()];
    let empty = ModelSpec::default();
    let dict_only = ModelSpec {
        dict: vec![WordSpec { word: "火星".into(), weights: vec![5, -3, 7], comment: "c,\"x\"\n".into() }],
        ..ModelSpec::default()
    };
    let wide = ModelSpec {
        char_ngrams: vec![
            NgramSpec { ngram: "a".into(), weights: (0..510).map(|i| i - 255).collect() },
            NgramSpec { ngram: "ab".into(), weights: (0..509).map(|i| 300 - i).collect() },
        ],
        type_ngrams: vec![NgramSpec { ngram: vec![5, 5], weights: (0..509).collect() }],
        char_window: 255,
        type_window: 255,
        bias: -7,
        ..ModelSpec::default()
    };
    // a file of a few hundred KiB: thousands of tag models (strided truncation / faults)
    let big = crate::checks::c14::large_model(&crate::checks::c14::LargeCase { n_tag_models: 5000, n_char_ngrams: 300, n_words: 40, n_long_words: 0, long_text: 0 }).spec;
    // tables whose sizes are exact powers of two
    let pow2: Vec<ModelSpec> = [(4096usize, 4096usize, 4096usize), (0, 8192, 8192), (1, 65536, 0)]
        .into_iter()
        .map(|(t, g, w)| crate::checks::c14::large_model(&crate::checks::c14::LargeCase { n_tag_models: t, n_char_ngrams: g, n_words: w, n_long_words: 0, long_text: 0 }).spec)
        .collect();
    // lengths around the boundaries of the variable-length integer encoding
    let varint: Vec<ModelSpec> = crate::checks::c14::varint_cases().into_iter().map(|c| c.spec).collect();
    let mut cases: Vec<FileCase> = [vec![empty, dict_only, wide, big], pow2, varint].concat()
        .into_iter()
        .map(|spec| FileCase { spec, texts: texts.clone(), trailing: vec![1, 2, 3] })
        .collect();
    // single strings around buffer-size thresholds (a comment, a dictionary word, an n-gram, a
    // tag-model token and a tag name of `size` bytes each)
    for size in [255usize, 256, 4095, 4096, 4097, 8192, 16384, 65535, 65536, 70000] {
        use vcommon::mirror::{TagModelSpec, TagNgramSpec, TagWeightSpec};
        let ascii = |c: char, n: usize| -> String { std::iter::repeat(c).take(n).collect() };
        let word: String = (0..size / 3).map(|i| ['火', '星', '猫', '東'][i % 4]).collect::<String>() + &ascii('w', size % 3);
        let ngram = ascii('x', size - 1) + "y";
        let token = ascii('t', size);
        let spec = ModelSpec {
            char_window: 2,
            type_window: 1,
            bias: 3,
            char_ngrams: vec![
                NgramSpec { ngram: ngram.clone(), weights: vec![4, -9] },
                NgramSpec { ngram: "y".into(), weights: vec![1, 2, 3, 4] },
            ],
            type_ngrams: vec![NgramSpec { ngram: vec![2], weights: vec![-2, 1] }],
            dict: vec![
                WordSpec { word: word.clone(), weights: vec![7, -8, 9], comment: ascii('c', size) },
                WordSpec { word: "星".into(), weights: vec![1, 1], comment: String::new() },
            ],
            tag_models: vec![TagModelSpec {
                token: token.clone(),
                tags: vec![vec![ascii('A', size), "B".into()]],
                char_ngrams: vec![TagNgramSpec {
                    ngram: "tt".into(),
                    weights: vec![TagWeightSpec { rel_position: 0, weights: vec![1, 5] }],
                }],
                type_ngrams: vec![],
                bias: vec![2, 1],
            }],
            ..ModelSpec::default()
        };
        cases.push(FileCase {
            spec,
            texts: vec![format!("a{word}b"), format!("{ngram}{ngram}"), format!("火{token}星")],
            trailing: vec![7; 5],
        });
    }
    cases
}

fn case_strategy() -> impl Strategy<Value = FileCase> {
    (
        prop_oneof![
            1 => gen::model_case(ModelCfg { allow_255: false, max_texts: 3, ..ModelCfg::BOUNDARY }),
            2 => gen::model_case(ModelCfg::TAGGED),
        ],
        proptest::collection::vec(any::<u8>(), 0..=64),
    )
        .prop_map(|(mc, trailing)| FileCase {
            spec: mc.spec,
            texts: mc.texts,
            trailing,
        })
}

pub fn run(rep: &mut Report) {
    // the golden model file of the repository
    rep.run_enum(
        "golden-file",
        "resources/model.bin of the repository put through the same round-trip, truncation, \
header and fault enumeration (every position)",
        false,
        vec![GoldenCase { path: "/repo/resources/model.bin".into() }].into_iter(),
        |c: &GoldenCase| {
            let b = std::fs::read(&c.path).map_err(|e| format!("cannot read {}: {e}", c.path))?;
            let texts = vec!["まぁ社長は火星猫だ".to_string(), "まぁ良いだろう".to_string()];
            let mut info = test_bytes(&b, &texts, b"tail", true)?;
            info.nontrivial = true;
            Ok(info)
        },
    );
    rep.run_enum(
        "edge-files",
        "hand-picked edge files: the empty model, a dictionary-only model, a model with window \
255 (n-gram weight vectors of ~500 entries, file > 1 KiB), 5,000 tag models, and models whose \
single strings (comment, word, n-gram, token, tag name) have 255 .. 70,000 bytes",
        false,
        edge_cases().into_iter(),
        test_case,
    );
    rep.run_enum(
        "huge-dictionary",
        "a model with 2,000,000 dictionary words (about 24 MB on disk): to_vec / write agree, \
read and read_slice return the same model and exactly the trailing bytes (no prefix enumeration \
at this size); guards against limits that only large production models reach",
        false,
        vec![GoldenCase { path: "generated:2000000".into() }].into_iter(),
        |_c: &GoldenCase| {
            use vaporetto::WordWeightRecord;
            let mut m = ModelSpec::default().to_model()?;
            let mut dict = Vec::with_capacity(2_000_000);
            for i in 0..2_000_000u32 {
                let w: String = [char::from_u32(0x4E00 + i / 4000).unwrap(), char::from_u32(0x4E00 + i % 4000).unwrap()].iter().collect();
                dict.push(WordWeightRecord::new(w, vec![(i % 13) as i32 - 6, 1, -1], String::new()).map_err(|e| e.to_string())?);
            }
            m.replace_dictionary(dict);
            let bytes = m.to_vec().map_err(|e| format!("to_vec: {e}"))?;
            let mut w = vec![];
            m.write(&mut w).map_err(|e| format!("write: {e}"))?;
            ensure!(w == bytes, "write and to_vec differ for a large model");
            let mut joined = bytes.clone();
            joined.extend_from_slice(b"TRAILER");
            let (m2, rest) = Model::read_slice(&joined).map_err(|e| format!("read_slice rejects a {}-byte model written by to_vec: {e}", bytes.len()))?;
            ensure_eq!(rest, &b"TRAILER"[..], "rest after a large model");
            ensure!(m2.to_vec().map_err(|e| e.to_string())? == bytes, "large model re-serialises differently (read_slice)");
            let m3 = Model::read(bytes.as_slice()).map_err(|e| format!("read rejects a {}-byte model written by write: {e}", bytes.len()))?;
            ensure!(m3.to_vec().map_err(|e| e.to_string())? == bytes, "large model re-serialises differently (read)");
            ensure!(Model::read_slice(&bytes[..bytes.len() - 1]).is_err(), "a large model cut by one byte is accepted");
            Ok(Info::new(true))
        },
    );
    let n = rep.n(1500, 60000);
    rep.run_prop(
        "files",
        "generated model files (all nested types on the wire, with/without tag models, empty \
models, words longer than 7 characters) plus resources/model.bin: read/read_slice/write/to_vec \
round-trip byte-identically, read_slice returns exactly the trailing bytes, re-read models \
predict identically; EVERY proper prefix is rejected by read and read_slice (exhaustive per file \
up to 4 KiB, strided in the middle beyond), every single-byte header change and shorter/longer \
header lines are rejected, a reader failing after k bytes (every k) yields Err, a short-read \
reader yields the same model, a writer failing (error or Ok(0)) after k bytes (every k) yields \
Err with only a prefix written. Non-trivial = model with >= 1 n-gram and >= 1 dictionary word.",
        n,
        case_strategy,
        test_case,
    );
    rep.extra("truncation_points_executed", serde_json::json!(TRUNCATIONS.load(Ordering::Relaxed)));
    rep.extra("io_fault_positions_executed", serde_json::json!(FAULTS.load(Ordering::Relaxed)));
    rep.extra("header_variants_executed", serde_json::json!(HEADERS.load(Ordering::Relaxed)));
    rep.assume("arbitrary corrupt files with a valid header are outside the property (prefixes, foreign headers and I/O faults only)");
}
