//! C11 — Training is total and its output is always usable.

use proptest::prelude::*;
use vaporetto::{Model, Predictor, Sentence, Trainer};
use vcommon::engine::{Info, Report, TestResult};
use vcommon::mirror::ModelSpec;
use vcommon::oracle::{NB, UNK, WB};
use vcommon::train::{self, TrainCase, TrainGenCfg};
#[allow(unused_imports)]
use vcommon::{ensure, ensure_eq};

use crate::util;

fn in_i16(w: i32) -> bool {
    (-32768..=32767).contains(&w)
}

pub fn test_case(case: &TrainCase) -> TestResult {
    let cfg = &case.cfg;
    let sentences: Vec<Sentence<'static, 'static>> =
        case.corpus.iter().map(|r| r.to_sentence()).collect::<Result<_, _>>()?;
    let tag_dict: Vec<Sentence<'static, 'static>> =
        case.tag_dict.iter().map(|r| r.to_sentence()).collect::<Result<_, _>>()?;
    let mut info = Info::default()
        .class(cfg.charw != cfg.typew, "charw!=typew")
        .class(cfg.charn > cfg.charw || cfg.typen > cfg.typew, "n>window")
        .class(cfg.charw == 0 || cfg.typew == 0 || cfg.charn == 0 || cfg.typen == 0, "zero-parameter")
        .class(case.corpus.is_empty(), "empty-corpus")
        .class(!case.corpus.iter().any(|r| r.labels.contains(&WB)), "no-word-boundary-in-corpus")
        .class(!case.corpus.iter().any(|r| r.labels.contains(&NB)), "no-non-boundary-in-corpus")
        .class(case.corpus.iter().any(|r| r.labels.contains(&UNK)), "partial-annotation")
        .class(case.corpus.iter().any(|r| r.n_tags > 0), "tagged-corpus")
        .class(!case.tag_dict.is_empty(), "tag-dictionary")
        .class(true, ["solver0", "solver1", "solver2", "solver3", "solver4", "solver5", "solver6", "solver7"][cfg.solver as usize % 8]);
    info.nontrivial = cfg.charw != cfg.typew
        || cfg.charn > cfg.charw
        || cfg.typen > cfg.typew
        || [cfg.charw, cfg.charn, cfg.typew, cfg.typen].contains(&0)
        || case.corpus.len() <= 1
        || !case.corpus.iter().any(|r| r.labels.contains(&WB))
        || !case.corpus.iter().any(|r| r.labels.contains(&NB));
    // no panic anywhere in new -> add_example -> train (the engine turns a panic into a failure)
    let mut trainer = match Trainer::new(
        cfg.charw,
        cfg.charn,
        cfg.typew,
        cfg.typen,
        cfg.dict.clone(),
        cfg.dictn,
        &tag_dict,
    ) {
        Ok(t) => t,
        Err(_) => return Ok(info.class(true, "Trainer::new-returned-error")),
    };
    for s in &sentences {
        trainer.add_example(s);
    }
    let model = match util::train_deterministic(|| trainer.train(0.01, 1.0, train::solver_of(cfg.solver))) {
        Ok(m) => m,
        Err(_) => return Ok(info.class(true, "train-returned-error")),
    };
    let info = info.class(true, "train-returned-model");
    // the model can be serialised and re-read
    let bytes = model.to_vec().map_err(|e| format!("to_vec of the trained model: {e}"))?;
    let mut w = vec![];
    model.write(&mut w).map_err(|e| format!("write of the trained model: {e}"))?;
    ensure!(w == bytes, "write and to_vec of the trained model differ");
    // ... also into a writer that takes only part of each buffer (a compressor, a pipe)
    for chunk in [1usize, 7, 4096, 131072] {
        if chunk > 7 && bytes.len() <= chunk {
            continue;
        }
        let mut sw = util::ShortWriter { written: vec![], chunk };
        model.write(&mut sw).map_err(|e| format!("write into a writer accepting {chunk} bytes per call: {e}"))?;
        ensure!(
            sw.written == bytes,
            "write() into a writer accepting {chunk} bytes per call reports success after {} of {} bytes",
            sw.written.len(),
            bytes.len()
        );
    }
    let reread = Model::read(bytes.as_slice()).map_err(|e| format!("re-reading the trained model: {e}"))?;
    ensure!(reread.to_vec().map_err(|e| e.to_string())? == bytes, "re-read trained model serialises differently");
    // only weights within the signed 16-bit range
    let spec = ModelSpec::from_model(&model)?;
    ensure!(in_i16(spec.bias), "bias {} outside the 16-bit range", spec.bias);
    for g in &spec.char_ngrams {
        ensure!(g.weights.iter().all(|&w| in_i16(w)), "character n-gram {:?} has weights outside 16 bits: {:?}", g.ngram, g.weights);
    }
    for g in &spec.type_ngrams {
        ensure!(g.weights.iter().all(|&w| in_i16(w)), "type n-gram {:?} has weights outside 16 bits", g.ngram);
    }
    for d in &spec.dict {
        ensure!(d.weights.iter().all(|&w| in_i16(w)), "dictionary word {:?} has weights outside 16 bits", d.word);
    }
    for t in &spec.tag_models {
        ensure!(t.bias.iter().all(|&w| in_i16(w)), "tag bias of {:?} outside 16 bits", t.token);
        for g in &t.char_ngrams {
            for tw in &g.weights {
                ensure!(tw.weights.iter().all(|&w| in_i16(w)), "tag weights of {:?} outside 16 bits", t.token);
            }
        }
        for g in &t.type_ngrams {
            for tw in &g.weights {
                ensure!(tw.weights.iter().all(|&w| in_i16(w)), "tag weights of {:?} outside 16 bits", t.token);
            }
        }
    }
    // accepted by the predictor with and without tag prediction; predicts and tags any text
    let p0 = Predictor::new(model, false).map_err(|e| format!("Predictor::new(model, false): {e}"))?;
    let mut p1 = Predictor::new(reread, true).map_err(|e| format!("Predictor::new(model, true): {e}"))?;
    p1.store_tag_scores(true);
    let mut texts = case.eval.clone();
    texts.push("x".into());
    texts.push("未知の文字列xyz 123".into());
    if let Some(r) = case.corpus.first() {
        texts.push(r.chars.iter().take(1).collect());
    }
    for text in &texts {
        let mut s = Sentence::from_raw(text.clone()).map_err(|e| e.to_string())?;
        p0.predict(&mut s);
        let o0 = util::observe(&s);
        util::check_consistent(&o0)?;
        p1.predict(&mut s);
        s.fill_tags();
        let o1 = util::observe(&s);
        util::check_consistent(&o1)?;
        ensure_eq!(&o0.scores, &o1.scores, "scores with and without tag prediction differ on {text:?}");
        for t in s.iter_tokens() {
            let _ = t.tag_candidates();
        }
    }
    Ok(info.class(!spec.tag_models.is_empty(), "model-has-tag-models"))
}

fn case_strategy() -> impl Strategy<Value = TrainCase> {
    (
        train::train_case(TrainGenCfg { max_sentences: 6, max_len: 8, tame: false, tag_dict: true, tag_focus: false }),
        0u8..12,
        proptest::collection::vec(prop::option::weighted(0.12, Just(7u8)), 4),
    )
        .prop_map(|(mut c, mode, sevens)| {
            // degenerate corpora
            match mode {
                0 => c.corpus.clear(),
                1 => c.corpus.truncate(1),
                2 => c.corpus.iter_mut().for_each(|r| r.labels.iter_mut().for_each(|l| if *l == WB { *l = NB })),
                3 => c.corpus.iter_mut().for_each(|r| r.labels.iter_mut().for_each(|l| if *l == NB { *l = WB })),
                4 => c.corpus.iter_mut().for_each(|r| r.labels.iter_mut().for_each(|l| *l = UNK)),
                // degenerate dictionaries: a blank entry (among other words), the same word twice
                5 => c.cfg.dict.insert(c.cfg.dict.len() / 2, String::new()),
                6 => {
                    if let Some(w) = c.cfg.dict.first().cloned() {
                        c.cfg.dict.push(w);
                    }
                }
                _ => {}
            }
            let ps = [&mut c.cfg.charw, &mut c.cfg.charn, &mut c.cfg.typew, &mut c.cfg.typen];
            for (p, s) in ps.into_iter().zip(sevens) {
                if let Some(v) = s {
                    *p = v;
                }
            }
            c
        })
}

/// Corpora around the representation limits: one token (also a dictionary word and a tagged,
/// ambiguous token) of `word_len` characters, in sentences of `word_len` + 4 characters.
pub fn long_word_case(word_len: usize, k: usize) -> TrainCase {
    use vcommon::oracle::RefSentence;
    let alphabet: [char; 5] = if k % 2 == 0 { ['a', 'b', 'c', 'd', 'e'] } else { ['火', 'あ', '𠀋', 'ア', 'é'] };
    let word: Vec<char> = (0..word_len).map(|i| alphabet[(i * i + i / 3) % 5]).collect();
    let mk = |prefix: &str, suffix: &str, tag: &str| {
        let mut chars: Vec<char> = prefix.chars().collect();
        let a = chars.len();
        chars.extend(word.iter().copied());
        let b = chars.len();
        chars.extend(suffix.chars());
        let n = chars.len();
        let mut labels = vec![NB; n - 1];
        if a > 0 {
            labels[a - 1] = WB;
        }
        if b < n {
            labels[b - 1] = WB;
        }
        let mut tags = vec![vec![]; n];
        tags[b - 1] = vec![Some(tag.to_string())];
        if a > 0 {
            tags[a - 1] = vec![Some("P".to_string())];
        }
        RefSentence { chars, labels, tags, n_tags: 1 }
    };
    let corpus = vec![mk("xy", "zw", "A"), mk("z", "", "B"), mk("", "xyz", "A"), mk("yx", "w", "C")];
    let w: String = word.iter().collect();
    let eval = vec![corpus[0].text(), w.clone(), format!("{w}{w}")];
    TrainCase {
        cfg: train::TrainCfg {
            charw: [2, 3, 1][k % 3],
            charn: [2, 1, 1][k % 3],
            typew: [2, 1, 3][k % 3],
            typen: [2, 1, 3][k % 3],
            // (words above 32767 characters are refused by Trainer::new; every second such case
            // keeps the long token out of the dictionary so that it is trained on)
            dict: if word_len > 32767 && k % 2 == 1 { vec!["xy".into(), "z".into()] } else { vec![w, "xy".into(), "z".into()] },
            dictn: [1u8, 4, 255][k % 3],
            solver: [1u8, 5, 0, 6][k % 4],
        },
        corpus,
        tag_dict: vec![],
        eval,
    }
}

/// The README path through the shipped `train` program: corpus / dictionary files -> train ->
/// model.zst. The program may refuse a configuration or a corpus with an error status; it must
/// not crash, and a model file it writes must be usable like any returned model.
pub fn test_tool(case: &TrainCase) -> TestResult {
    use vcommon::oracle::{self, RefSentence};
    let cfg = &case.cfg;
    let dir = util::Scratch::new("c11");
    let (ftok, fpart, fdict, fmodel) = (dir.path("c.tok"), dir.path("c.part"), dir.path("d.txt"), dir.path("m.zst"));
    let (mut tok, mut part, mut dict) = (String::new(), String::new(), String::new());
    for r in &case.corpus {
        if r.labels.contains(&UNK) {
            part.push_str(&oracle::ref_write_partial(r));
            part.push('\n');
        } else {
            tok.push_str(&oracle::ref_write_tokenized(r));
            tok.push('\n');
        }
    }
    for w in &cfg.dict {
        let cs: Vec<char> = w.chars().collect();
        if cs.is_empty() {
            continue;
        }
        let r = RefSentence { labels: vec![NB; cs.len() - 1], tags: vec![vec![]; cs.len()], n_tags: 0, chars: cs };
        dict.push_str(&oracle::ref_write_tokenized(&r));
        dict.push('\n');
    }
    for r in &case.tag_dict {
        let mut r = r.clone();
        r.labels.iter_mut().for_each(|l| if *l == UNK { *l = WB });
        dict.push_str(&oracle::ref_write_tokenized(&r));
        dict.push('\n');
    }
    let mut args: Vec<String> = vec![];
    let mut datasets = 0;
    for (flag, path, content) in [("--tok", &ftok, &tok), ("--part", &fpart, &part)] {
        if !content.is_empty() {
            std::fs::write(path, content).map_err(|e| e.to_string())?;
            args.push(flag.into());
            args.push(path.to_string_lossy().to_string());
            datasets += 1;
        }
    }
    if datasets == 0 {
        // the program requires a dataset: an empty tokenized corpus file
        std::fs::write(&ftok, "").map_err(|e| e.to_string())?;
        args.push("--tok".into());
        args.push(ftok.to_string_lossy().to_string());
    }
    if !dict.is_empty() {
        std::fs::write(&fdict, &dict).map_err(|e| e.to_string())?;
        args.push("--dict".into());
        args.push(fdict.to_string_lossy().to_string());
    }
    for (flag, v) in [("--charw", cfg.charw), ("--charn", cfg.charn), ("--typew", cfg.typew), ("--typen", cfg.typen), ("--dictn", cfg.dictn.max(1)), ("--solver", cfg.solver % 8)] {
        args.push(flag.into());
        args.push(v.to_string());
    }
    let no_norm = cfg.solver % 2 == 1;
    if no_norm {
        args.push("--no-norm".into());
    }
    args.push("--model".into());
    args.push(fmodel.to_string_lossy().to_string());
    if args.len() % 2 == 0 {
        util::prefill(&fmodel, args.len());
    }
    let r = util::run_tool("train", &args, b"")?;
    ensure!(
        !r.stderr.contains("panicked"),
        "train crashed (args {:?}): {}",
        &args[..args.len() - 2],
        r.stderr.lines().find(|l| l.contains("panicked")).unwrap_or("")
    );
    ensure!(r.code.is_some(), "train was killed by a signal (args {:?})", &args[..args.len() - 2]);
    let info = Info::new(cfg.charw != cfg.typew || cfg.charn > cfg.charw || cfg.typen > cfg.typew || [cfg.charw, cfg.charn, cfg.typew, cfg.typen].contains(&0))
        .class(no_norm, "--no-norm")
        .class(!part.is_empty(), "--part")
        .class(!dict.is_empty(), "--dict");
    if r.code != Some(0) {
        return Ok(info.class(true, "train-exits-with-error"));
    }
    let z = std::fs::read(&fmodel).map_err(|e| format!("train exits with 0 but wrote no model: {e}"))?;
    let raw = util::zstd_decode(&z)?;
    let (model, rest) = Model::read_slice(&raw).map_err(|e| format!("the model written by train cannot be read: {e}"))?;
    ensure!(rest.is_empty(), "the model file written by train has {} trailing bytes", rest.len());
    let spec = ModelSpec::from_model(&model)?;
    let all = spec
        .char_ngrams
        .iter()
        .flat_map(|g| g.weights.iter())
        .chain(spec.type_ngrams.iter().flat_map(|g| g.weights.iter()))
        .chain(spec.dict.iter().flat_map(|d| d.weights.iter()))
        .chain(spec.tag_models.iter().flat_map(|t| t.bias.iter()))
        .chain(std::iter::once(&spec.bias));
    for &w in all {
        ensure!(in_i16(w), "the model written by train holds the weight {w} outside the 16-bit range");
    }
    let (m2, _) = Model::read_slice(&raw).map_err(|e| e.to_string())?;
    let p0 = Predictor::new(model, false).map_err(|e| format!("Predictor::new(model written by train, false): {e}"))?;
    let p1 = Predictor::new(m2, true).map_err(|e| format!("Predictor::new(model written by train, true): {e}"))?;
    let mut texts = case.eval.clone();
    texts.push("未知の文字列xyz 123".into());
    for text in &texts {
        let mut s = Sentence::from_raw(text.clone()).map_err(|e| e.to_string())?;
        p0.predict(&mut s);
        util::check_consistent(&util::observe(&s))?;
        p1.predict(&mut s);
        s.fill_tags();
        util::check_consistent(&util::observe(&s))?;
    }
    Ok(info.class(true, "train-wrote-model").class(!spec.tag_models.is_empty(), "model-has-tag-models"))
}

/// A corpus of 600 sentences over a 2,000-character alphabet: tens of thousands of distinct
/// n-grams, a model of about 1 MB (larger than the 128 KiB blocks of the programs' compressor).
fn big_corpus_case() -> TrainCase {
    use vcommon::oracle::RefSentence;
    let ch = |i: usize| char::from_u32(0x4E00 + (i % 2000) as u32).unwrap();
    let corpus = (0..600usize)
        .map(|s| {
            let n = 20 + s % 17;
            let chars: Vec<char> = (0..n).map(|i| ch(s * 31 + i * 7 + (i * i) % 13)).collect();
            let labels: Vec<u8> = (0..n - 1).map(|i| ((i + s) % 3 == 0) as u8).collect();
            RefSentence { chars, labels, tags: vec![vec![]; n], n_tags: 0 }
        })
        .collect();
    TrainCase {
        cfg: train::TrainCfg { charw: 3, charn: 3, typew: 3, typen: 3, dict: vec![[ch(1), ch(8)].iter().collect()], dictn: 4, solver: 1 },
        corpus,
        tag_dict: vec![],
        eval: vec![(0..30).map(|i| ch(i * 7)).collect()],
    }
}

/// A dictionary whose trained model decodes to `n_words * word_len * 5` bytes and more (every
/// dictionary word of k characters stores k + 1 weights): models of the size real dictionaries
/// give, which no small corpus reaches.
fn big_dictionary_case(n_words: usize, word_len: usize) -> TrainCase {
    let mut base = long_word_case(40, 0);
    let mut x: u64 = 0x9e3779b97f4a7c15;
    for _ in 0..n_words {
        let w: String = (0..word_len)
            .map(|_| {
                x = x.wrapping_mul(6364136223846793005).wrapping_add(1442695040888963407);
                (b'a' + ((x >> 33) % 26) as u8) as char
            })
            .collect();
        base.cfg.dict.push(w);
    }
    base.cfg.dictn = 4;
    base
}

pub fn run(rep: &mut Report) {
    liblinear::toggle_liblinear_stdout_output(false);
    let _guard = util::redirect_output("/verif/target/C11-train-output.log");
    rep.run_enum(
        "long-words",
        "corpora whose sentences contain one token of 127..70,000 characters (1- and multi-byte) that is also a dictionary word and carries ambiguous tags, buckets 1, 4 and 255: same clauses as train-total",
        false,
        [127usize, 128, 254, 255, 256, 257, 300, 1000, 4096, 32767, 32768, 65535, 65536, 70000]
            .into_iter()
            .enumerate()
            .flat_map(|(k, l)| [long_word_case(l, k), long_word_case(l, k + 1)]),
        test_case,
    );
    let (nw, wl) = if rep.n(0, 1) == 1 { (3000usize, 30000usize) } else { (700usize, 30000usize) };
    rep.run_enum(
        "big-dictionary",
        "one training run with a dictionary of 700 (thorough: 3,000) words of 30,000 characters: \
the returned model decodes to more than 100 MB (thorough: 450 MB); same clauses as train-total",
        false,
        std::iter::once(big_dictionary_case(nw, wl)),
        test_case,
    );
    let n = rep.n(20000, 1000000);
    rep.run_prop(
        "train-total",
        "window and n-gram sizes from {0,1,2,3,4,7} (incl. n > window and differing windows), \
buckets 1..4, all eight solvers, corpora incl. empty, one sentence, no word boundary, only word \
boundaries, all unknown, untagged, partially tagged, ambiguous tags, partial annotation, tag \
dictionary: Trainer::new -> add_example -> train never panics (Err is fine); every returned \
model round-trips through to_vec/write/read, has all weights within 16 bits, is accepted by \
Predictor::new with and without tag prediction, and predicts + fill_tags + writers + \
tag_candidates on generated, out-of-vocabulary and one-character texts without panicking. \
Non-trivial = differing windows, n > window, a zero parameter or a degenerate corpus.",
        n,
        case_strategy,
        test_case,
    );
    rep.run_enum(
        "big-corpus",
        "600 sentences over a 2,000-character alphabet (a model of about 1 MB, more than the 128 \
KiB blocks of the compressor the programs write through): the library clauses of train-total \
and the same corpus through the shipped train program",
        false,
        std::iter::once(big_corpus_case()),
        |c: &TrainCase| {
            test_case(c)?;
            test_tool(c).map(|mut i| {
                i.nontrivial = true;
                i
            })
        },
    );
    let n = rep.n(1500, 40000);
    rep.run_prop(
        "train-tool",
        "the same generated configurations and corpora through the shipped train program \
(--tok / --part / --dict files, all size flags, all solvers, with and without --no-norm): the \
program never crashes; when it exits with 0 the zstd model it wrote is readable, has only 16-bit \
weights, is accepted by Predictor::new with and without tags and predicts + tags generated texts",
        n,
        case_strategy,
        test_tool,
    );
    rep.assume("a liblinear hang is mapped to exit 2 by the engine watchdog (no case finishing for 300 s)");
}
