//! C03 — Tokenized text format round-trips.

use vaporetto::Sentence;
use vcommon::engine::{Info, Report, TestResult};
use vcommon::gen;
use vcommon::oracle::{self, RefSentence, UNK};
use vcommon::{ensure, ensure_eq};

fn has_delim(s: &str) -> bool {
    s.contains(' ') || s.contains('/') || s.contains('\\')
}

pub fn roundtrip(rs: &RefSentence) -> TestResult {
    let s = rs.to_sentence()?;
    let mut y = String::new();
    s.write_tokenized_text(&mut y);
    ensure!(std::str::from_utf8(y.as_bytes()).is_ok(), "written text is not valid UTF-8");
    let p = match Sentence::from_tokenized(&y) {
        Ok(p) => p,
        Err(e) => return Err(format!("parser rejects the writer's output {y:?}: {e}").into()),
    };
    let got = oracle::observe_sentence(&p);
    // parsing through the in-place variant on a sentence that already holds other annotations
    // must give the same sentence
    let mut dirty = Sentence::from_tokenized("zz/Q1/Q2/Q3 y/R1 xxx/S1/S2/S3 w/T").map_err(|e| e.to_string())?;
    dirty.update_tokenized(&y).map_err(|e| format!("update_tokenized rejects the writer's output {y:?}: {e}"))?;
    ensure_eq!(
        oracle::observe_sentence(&dirty),
        got,
        "update_tokenized on a used sentence differs from from_tokenized for {y:?}"
    );
    ensure_eq!(got.text(), rs.text(), "raw text after write+parse (written {y:?})");
    ensure_eq!(got.labels, rs.labels, "boundaries after write+parse (written {y:?})");
    let toks = oracle::ref_tokens(&rs.labels);
    for t in &toks {
        let want = oracle::trimmed_row(&rs.tags[t.end - 1], rs.n_tags);
        let have = oracle::trimmed_row(&got.tags[t.end - 1], got.n_tags);
        ensure_eq!(have, want, "tags of token {}..{} after write+parse (written {y:?})", t.start, t.end);
    }
    let delim_surface = has_delim(&rs.text());
    let delim_tag = toks.iter().any(|t| {
        rs.tags[t.end - 1].iter().take(rs.n_tags).flatten().any(|x| has_delim(x))
    });
    let interior_none = toks.iter().any(|t| {
        let r = oracle::trimmed_row(&rs.tags[t.end - 1], rs.n_tags);
        r.iter().any(|x| x.is_none())
    });
    let trailing_none = toks.iter().any(|t| {
        rs.n_tags > 0 && oracle::trimmed_row(&rs.tags[t.end - 1], rs.n_tags).len() < rs.n_tags
    });
    Ok(Info::new(delim_surface || delim_tag || interior_none)
        .class(delim_surface, "delimiter-in-surface")
        .class(delim_tag, "delimiter-in-tag")
        .class(interior_none, "interior-absent-tag")
        .class(trailing_none, "trailing-absent-tag")
        .class(rs.chars.iter().any(|c| c.len_utf8() > 1), "multi-byte")
        .class(rs.n_tags == 0, "n_tags=0")
        .class(rs.n_tags == 1, "n_tags=1")
        .class(rs.n_tags == 2, "n_tags=2")
        .class(rs.n_tags == 3, "n_tags=3"))
}

pub fn idempotent(x: &String) -> TestResult {
    let p = match Sentence::from_tokenized(x) {
        Ok(p) => p,
        Err(_) => return Ok(Info::new(false).class(true, "rejected-by-parser")),
    };
    let mut y = String::new();
    p.write_tokenized_text(&mut y);
    ensure!(std::str::from_utf8(y.as_bytes()).is_ok(), "written text is not valid UTF-8");
    let p2 = match Sentence::from_tokenized(&y) {
        Ok(p) => p,
        Err(e) => return Err(format!("write(parse({x:?})) = {y:?} is rejected: {e}").into()),
    };
    let mut y2 = String::new();
    p2.write_tokenized_text(&mut y2);
    ensure_eq!(y2, y, "write-after-parse is not idempotent on {x:?}");
    ensure_eq!(p2.as_raw_text(), p.as_raw_text(), "raw text changes on re-parse of {y:?}");
    Ok(Info::new(x.contains('\\') || x.contains('/'))
        .class(true, "accepted-by-parser")
        .class(x.contains('\\'), "has-escape")
        .class(x.contains('/'), "has-tag"))
}

fn string_strategy() -> impl proptest::strategy::Strategy<Value = String> {
    use proptest::prelude::*;
    prop_oneof![
        3 => gen::annotated_sentence(12, 2, false).prop_map(|r| oracle::ref_write_tokenized(&r)),
        3 => (gen::annotated_sentence(10, 2, false), proptest::collection::vec((any::<u16>(), any::<u16>(), any::<u8>()), 1..=3))
            .prop_map(|(r, m)| gen::mutate(oracle::ref_write_tokenized(&r), &m)),
        3 => gen::dense_string(12, true),
        1 => any::<String>(),
    ]
}

/// The sentences a user actually writes out: predicted by a model and tagged by fill_tags (the
/// tags are then borrowed from the predictor's tag table). Tag names of the generated models
/// contain every delimiter of the format.
pub fn predicted_roundtrip(case: &vcommon::gen::ModelCase) -> TestResult {
    let mut p = crate::util::predictor(&case.spec, true)?;
    p.store_tag_scores(case.texts.len() % 2 == 0);
    let mut any_tag = false;
    let mut delim = false;
    for text in &case.texts {
        let mut s = Sentence::from_raw(text.clone()).map_err(|e| e.to_string())?;
        p.predict(&mut s);
        s.fill_tags();
        let want = oracle::observe_sentence(&s);
        let mut y = String::new();
        s.write_tokenized_text(&mut y);
        let q = Sentence::from_tokenized(&y).map_err(|e| format!("parser rejects the written form {y:?} of a predicted sentence: {e}"))?;
        let got = oracle::observe_sentence(&q);
        ensure_eq!(got.text(), want.text(), "raw text of a predicted sentence after write+parse (written {y:?})");
        ensure_eq!(&got.labels, &want.labels, "boundaries of a predicted sentence after write+parse (written {y:?})");
        for t in oracle::ref_tokens(&want.labels) {
            let a = oracle::trimmed_row(&want.tags[t.end - 1], want.n_tags);
            let b = oracle::trimmed_row(&got.tags[t.end - 1], got.n_tags);
            ensure_eq!(b, a, "tags of token {}..{} of a predicted sentence after write+parse (written {y:?})", t.start, t.end);
            any_tag |= !a.is_empty();
            delim |= a.iter().flatten().any(|x| has_delim(x));
        }
    }
    Ok(Info::new(delim).class(any_tag, "predicted-tags-present").class(delim, "delimiter-in-predicted-tag"))
}

pub fn run(rep: &mut Report) {
    let n = rep.n(25000, 1000000);
    rep.run_prop(
        "predicted-sentences",
        "generated models with tag models (tag names containing every delimiter of the format) x \
texts: predict + fill_tags, write, parse: same text, boundaries and per-token tags. Non-trivial = \
a predicted tag contains a delimiter.",
        n,
        || vcommon::gen::model_case(vcommon::gen::ModelCfg::TAGGED),
        predicted_roundtrip,
    );
    rep.run_enum(
        "scale-sentences",
        "deterministic sentences of 65,535 / 65,536 / 65,537 / 70,000 / 131,080 characters, one \
token of 70,000 characters, 70,000 one-character tokens, 255 / 256 / 300 tag columns, a tag of \
70,000 characters: same round trip",
        false,
        gen::scale_sentences(2, false).into_iter(),
        |r: &RefSentence| roundtrip(r).map(|mut i| { i.nontrivial = true; i }),
    );
    let n = rep.n(150000, 20000000);
    rep.run_prop(
        "write-parse",
        "fully segmented generated sentences (tags from a pool containing every delimiter and \
multi-byte characters, also on non-final characters where they must be ignored): \
from_tokenized(write_tokenized_text(s)) equals s in text, boundaries and per-token tags up to \
trailing absent tags. Non-trivial = delimiter/escape in a surface or tag, or an interior absent tag.",
        n,
        || {
            use proptest::prelude::*;
            gen::annotated_sentence(24, 2, false).prop_map(|mut r| {
                for l in r.labels.iter_mut() {
                    if *l == UNK {
                        *l = 0;
                    }
                }
                r
            })
        },
        roundtrip,
    );
    let n = rep.n(200000, 20000000);
    rep.run_prop(
        "idempotence",
        "strings from four classes (reference-written valid strings, point mutations of them, \
delimiter-dense random strings, arbitrary Unicode): for every accepted x, write(parse(x)) \
re-parses and write-after-parse is a fixed point. Non-trivial = accepted string with an escape or a tag.",
        n,
        string_strategy,
        idempotent,
    );
}
