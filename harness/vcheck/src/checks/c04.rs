//! C04 — Partial-annotation format round-trips.

use vaporetto::Sentence;
use vcommon::engine::{Info, Report, TestResult};
use vcommon::gen;
use vcommon::oracle::{self, RefSentence, UNK};
use vcommon::{ensure, ensure_eq};

fn has_delim(s: &str) -> bool {
    s.chars().any(|c| matches!(c, ' ' | '/' | '\\' | '-' | '|'))
}

pub fn roundtrip(rs: &RefSentence) -> TestResult {
    let s = rs.to_sentence()?;
    let mut y = String::new();
    s.write_partial_annotation_text(&mut y);
    let p = match Sentence::from_partial_annotation(&y) {
        Ok(p) => p,
        Err(e) => return Err(format!("parser rejects the writer's output {y:?}: {e}").into()),
    };
    let got = oracle::observe_sentence(&p);
    let mut dirty = Sentence::from_tokenized("zz/Q1/Q2/Q3 y/R1 xxx/S1/S2/S3 w/T").map_err(|e| e.to_string())?;
    dirty
        .update_partial_annotation(&y)
        .map_err(|e| format!("update_partial_annotation rejects the writer's output {y:?}: {e}"))?;
    ensure_eq!(
        oracle::observe_sentence(&dirty),
        got,
        "update_partial_annotation on a used sentence differs from from_partial_annotation for {y:?}"
    );
    if let Err(e) = oracle::same_annotation(&got, rs, true) {
        return Err(format!("write+parse changes the sentence (written {y:?}): {e}").into());
    }
    ensure!(got.n_tags <= rs.n_tags, "parsed n_tags {} > original {}", got.n_tags, rs.n_tags);
    ensure_eq!(p.boundary_scores().len(), 0, "scores after parse");
    let delim = rs.tags.iter().any(|r| r.iter().take(rs.n_tags).flatten().any(|t| has_delim(t)));
    let unk_next_to_tag = (0..rs.chars.len()).any(|i| {
        let tagged = !oracle::trimmed_row(&rs.tags[i], rs.n_tags).is_empty();
        tagged
            && ((i > 0 && rs.labels[i - 1] == UNK) || (i < rs.labels.len() && rs.labels[i] == UNK))
    });
    Ok(Info::new(delim || unk_next_to_tag)
        .class(delim, "delimiter-in-tag")
        .class(unk_next_to_tag, "unknown-next-to-tagged-char")
        .class(rs.chars.iter().any(|c| has_delim(&c.to_string())), "delimiter-as-text-char")
        .class(rs.n_tags == 0, "n_tags=0")
        .class(rs.n_tags >= 2, "n_tags>=2"))
}

pub fn run(rep: &mut Report) {
    rep.run_enum(
        "scale-sentences",
        "deterministic sentences of 65,535 / 65,536 / 65,537 / 70,000 / 131,080 characters (with \
unknown labels and tags on any character), 255 / 256 / 300 tag columns, a tag of 70,000 \
characters: same round trip",
        false,
        gen::scale_sentences(3, true).into_iter(),
        |r: &RefSentence| roundtrip(r).map(|mut i| { i.nontrivial = true; i }),
    );
    let n = rep.n(200000, 30000000);
    rep.run_prop(
        "write-parse",
        "generated sentences with any label vector over {boundary, non-boundary, unknown} and tags \
on any character (pool contains '/', '-', '|', ' ', '\\\\' and multi-byte tags): \
from_partial_annotation(write_partial_annotation_text(s)) equals s in text, every label and every \
character's tags up to trailing absent tags. Non-trivial = a tag contains a format delimiter, or \
an unknown label sits next to a tagged character.",
        n,
        || gen::annotated_sentence(24, 3, true),
        roundtrip,
    );
}
