//! C04 — Partial-annotation format round-trips.

use vaporetto::Sentence;
use vcommon::engine::{Info, Report, TestResult};
use vcommon::gen;
use vcommon::oracle::{self, RefSentence, UNK};
use vcommon::{ensure, ensure_eq};

fn has_delim(s: &str) -> bool {
    s.chars().any(|c| matches!(c, ' ' | '/' | '\\' | '-' | '|'))
}

pub fn roundtrip(rs: &RefSentence) -> TestResult {
    let s = rs.to_sentence()?;
    let mut y = String::new();
    s.write_partial_annotation_text(&mut y);
    let p = match Sentence::from_partial_annotation(&y) {
        Ok(p) => p,
        Err(e) => return Err(format!("parser rejects the writer's output {y:?}: {e}").into()),
    };
    let got = oracle::observe_sentence(&p);
    let mut dirty = Sentence::from_tokenized("zz/Q1/Q2/Q3 y/R1 xxx/S1/S2/S3 w/T").map_err(|e| e.to_string())?;
    dirty
        .update_partial_annotation(&y)
        .map_err(|e| format!("update_partial_annotation rejects the writer's output {y:?}: {e}"))?;
    ensure_eq!(
        oracle::observe_sentence(&dirty),
        got,
        "update_partial_annotation on a used sentence differs from from_partial_annotation for {y:?}"
    );
    if let Err(e) = oracle::same_annotation(&got, rs, true) {
        return Err(format!("write+parse changes the sentence (written {y:?}): {e}").into());
    }
    ensure!(got.n_tags <= rs.n_tags, "parsed n_tags {} > original {}", got.n_tags, rs.n_tags);
    ensure_eq!(p.boundary_scores().len(), 0, "scores after parse");
    let delim = rs.tags.iter().any(|r| r.iter().take(rs.n_tags).flatten().any(|t| has_delim(t)));
    let unk_next_to_tag = (0..rs.chars.len()).any(|i| {
        let tagged = !oracle::trimmed_row(&rs.tags[i], rs.n_tags).is_empty();
        tagged
            && ((i > 0 && rs.labels[i - 1] == UNK) || (i < rs.labels.len() && rs.labels[i] == UNK))
    });
    Ok(Info::new(delim || unk_next_to_tag)
        .class(delim, "delimiter-in-tag")
        .class(unk_next_to_tag, "unknown-next-to-tagged-char")
        .class(rs.chars.iter().any(|c| has_delim(&c.to_string())), "delimiter-as-text-char")
        .class(rs.n_tags == 0, "n_tags=0")
        .class(rs.n_tags >= 2, "n_tags>=2"))
}

/// The sentences a user actually writes out: predicted by a model and tagged by fill_tags (the
/// tags are then borrowed from the predictor's tag table). Tag names of the generated models
/// contain every delimiter of the format.
pub fn predicted_roundtrip(case: &vcommon::gen::ModelCase) -> TestResult {
    let mut p = crate::util::predictor(&case.spec, true)?;
    p.store_tag_scores(case.texts.len() % 2 == 0);
    let mut any_tag = false;
    let mut delim = false;
    for text in &case.texts {
        let mut s = Sentence::from_raw(text.clone()).map_err(|e| e.to_string())?;
        p.predict(&mut s);
        s.fill_tags();
        let want = oracle::observe_sentence(&s);
        let mut y = String::new();
        s.write_partial_annotation_text(&mut y);
        let q = Sentence::from_partial_annotation(&y).map_err(|e| format!("parser rejects the written form {y:?} of a predicted sentence: {e}"))?;
        let got = oracle::observe_sentence(&q);
        ensure_eq!(got.text(), want.text(), "raw text of a predicted sentence after write+parse (written {y:?})");
        ensure_eq!(&got.labels, &want.labels, "boundaries of a predicted sentence after write+parse (written {y:?})");
        for t in oracle::ref_tokens(&want.labels) {
            let a = oracle::trimmed_row(&want.tags[t.end - 1], want.n_tags);
            let b = oracle::trimmed_row(&got.tags[t.end - 1], got.n_tags);
            ensure_eq!(b, a, "tags of token {}..{} of a predicted sentence after write+parse (written {y:?})", t.start, t.end);
            any_tag |= !a.is_empty();
            delim |= a.iter().flatten().any(|x| has_delim(x));
        }
    }
    Ok(Info::new(delim).class(any_tag, "predicted-tags-present").class(delim, "delimiter-in-predicted-tag"))
}

pub fn run(rep: &mut Report) {
    let n = rep.n(25000, 1000000);
    rep.run_prop(
        "predicted-sentences",
        "generated models with tag models (tag names containing every delimiter of the format) x \
texts: predict + fill_tags, write, parse: same text, boundaries and per-token tags. Non-trivial = \
a predicted tag contains a delimiter.",
        n,
        || vcommon::gen::model_case(vcommon::gen::ModelCfg::TAGGED),
        predicted_roundtrip,
    );
    rep.run_enum(
        "scale-sentences",
        "deterministic sentences of 65,535 / 65,536 / 65,537 / 70,000 / 131,080 characters (with \
unknown labels and tags on any character), 255 / 256 / 300 tag columns, a tag of 70,000 \
characters: same round trip",
        false,
        gen::scale_sentences(3, true).into_iter(),
        |r: &RefSentence| roundtrip(r).map(|mut i| { i.nontrivial = true; i }),
    );
    let n = rep.n(200000, 30000000);
    rep.run_prop(
        "write-parse",
        "generated sentences with any label vector over {boundary, non-boundary, unknown} and tags \
on any character (pool contains '/', '-', '|', ' ', '\\\\' and multi-byte tags): \
from_partial_annotation(write_partial_annotation_text(s)) equals s in text, every label and every \
character's tags up to trailing absent tags. Non-trivial = a tag contains a format delimiter, or \
an unknown label sits next to a tagged character.",
        n,
        || gen::annotated_sentence(24, 3, true),
        roundtrip,
    );
}
