//! C10 — Training uses exactly the annotated boundaries with the documented features.

use vaporetto::verif_hooks::HookFeature;
use vaporetto::{Sentence, Trainer};
use vcommon::engine::{Info, Report, TestResult};
use vcommon::oracle::{NB, UNK, WB};
use vcommon::train::{self, TrainCase, TrainGenCfg};
#[allow(unused_imports)]
use vcommon::{ensure, ensure_eq};

pub fn test_case(case: &TrainCase) -> TestResult {
    let cfg = &case.cfg;
    let sentences: Vec<Sentence<'static, 'static>> = case
        .corpus
        .iter()
        .map(|r| r.to_sentence())
        .collect::<Result<_, _>>()?;
    let tag_dict: Vec<Sentence<'static, 'static>> = vec![];
    let mut trainer = match Trainer::new(
        cfg.charw,
        cfg.charn,
        cfg.typew,
        cfg.typen,
        cfg.dict.clone(),
        cfg.dictn,
        &tag_dict,
    ) {
        Ok(t) => t,
        // e.g. an empty dictionary word: rejected configurations are C11's business
        Err(_) => return Ok(Info::new(false).class(true, "trainer-rejected-configuration")),
    };
    let mut want: Vec<(f64, Vec<(HookFeature, f64)>)> = vec![];
    let mut unknowns = 0;
    let mut dict_match = false;
    let mut repeated = false;
    for (s, r) in sentences.iter().zip(&case.corpus) {
        trainer.add_example(s);
        for (i, &l) in r.labels.iter().enumerate() {
            if l == UNK {
                unknowns += 1;
                continue;
            }
            let f = train::ref_boundary_features(cfg, &r.chars, i);
            dict_match |= f.keys().any(|k| matches!(k, HookFeature::DictWord { .. }));
            repeated |= f.values().any(|&v| v > 1.0);
            want.push((if l == WB { 1.0 } else { 0.0 }, f.into_iter().collect()));
            let _ = NB;
        }
        // after every added sentence the example store must equal the reference so far
        let got: Vec<(f64, Vec<(HookFeature, f64)>)> = trainer
            .verif_examples()
            .into_iter()
            .map(|e| (e.label, e.features))
            .collect();
        if got.len() != want.len() {
            return Err(format!(
                "{} examples stored, reference has {} (one per annotated boundary) after sentence {:?} with labels {:?}",
                got.len(),
                want.len(),
                r.text(),
                r.labels
            )
            .into());
        }
        for (k, (g, w)) in got.iter().zip(&want).enumerate() {
            ensure_eq!(g.0, w.0, "label of example {k}");
            ensure_eq!(&g.1, &w.1, "features of example {k} (cfg {cfg:?})");
        }
    }
    Ok(Info::new(unknowns > 0 && dict_match)
        .class(unknowns > 0, "unknown-boundary-in-corpus")
        .class(dict_match, "dictionary-feature")
        .class(repeated, "repeated-dictionary-feature(count>1)")
        .class(cfg.charn > cfg.charw || cfg.typen > cfg.typew, "n>window")
        .class(cfg.charw == 0 || cfg.typew == 0, "window=0")
        .class(cfg.charw != cfg.typew, "charw!=typew")
        .class(case.corpus.iter().any(|r| r.labels.iter().all(|&l| l == UNK) && !r.labels.is_empty()), "all-unknown-sentence"))
}

/// "The examples handed to the learner": the stored problem (labels + sparse vectors with their
/// feature ids, hook Trainer::verif_problem) is given to liblinear by the harness itself, with
/// the trainer's parameters and the same pseudo-random state; the quantised bias and weights must
/// be the ones Trainer::train records. Whatever train() does to the examples before the learner
/// sees them (dropping, reordering, re-weighting) changes the solution.
pub fn test_learner_input(case: &TrainCase) -> TestResult {
    use liblinear::LibLinearModel;
    let cfg = &case.cfg;
    // untagged corpus: only the boundary learner runs
    let corpus: Vec<vcommon::oracle::RefSentence> = case
        .corpus
        .iter()
        .map(|r| {
            let mut r = r.clone();
            r.n_tags = 0;
            r.tags = vec![vec![]; r.chars.len()];
            r
        })
        .collect();
    let sentences: Vec<Sentence<'static, 'static>> =
        corpus.iter().map(|r| r.to_sentence()).collect::<Result<_, _>>()?;
    let tag_dict: Vec<Sentence<'static, 'static>> = vec![];
    let mut trainer = match Trainer::new(cfg.charw, cfg.charn, cfg.typew, cfg.typen, cfg.dict.clone(), cfg.dictn, &tag_dict) {
        Ok(t) => t,
        Err(_) => return Ok(Info::new(false).class(true, "trainer-rejected-configuration")),
    };
    for s in &sentences {
        trainer.add_example(s);
    }
    let (ys, xs, ids) = trainer.verif_problem();
    let featureless = xs.iter().filter(|x| x.is_empty()).count();
    let n_examples = ys.len();
    let solver = train::solver_of(cfg.solver);
    let (eps, cost) = (0.01, 1.0);
    let got = crate::util::train_deterministic(|| {
        let r = trainer.train(eps, cost, solver);
        (r.is_ok(), vaporetto::verif_hooks::take_train_record())
    });
    // the same problem, handed to the learner by the harness
    let reference = crate::util::train_deterministic(|| -> Result<(i32, Vec<(u32, i32)>), String> {
        let input = liblinear::util::TrainingInput::from_sparse_features(ys, xs).map_err(|e| format!("{e:?}"))?;
        let mut builder = liblinear::Builder::new();
        builder.problem().input_data(input).bias(1.0);
        builder
            .parameters()
            .solver_type(train::liblinear_solver_of(cfg.solver))
            .stopping_criterion(eps)
            .constraints_violation_cost(cost);
        let model = builder.build_model().map_err(|e| e.to_string())?;
        let wb = model.labels().iter().position(|&c| c == 1).ok_or("no word boundary among the labels")? as i32;
        let bias = model.label_bias(wb);
        let mut wmax = bias.abs();
        for fid in 0..model.num_features() {
            wmax = wmax.max(model.feature_coefficient(fid as i32 + 1, wb).abs());
        }
        let q = wmax / 32767.0;
        if q == 0.0 {
            return Err("all weights are zero".into());
        }
        let mut ws: Vec<(u32, i32)> = ids.iter().map(|(_, fid)| (*fid, (model.feature_coefficient(*fid as i32, wb) / q) as i32)).collect();
        ws.sort();
        Ok(((bias / q) as i32, ws))
    });
    let info = Info::new(featureless > 0 && n_examples > featureless)
        .class(featureless > 0, "example-without-features")
        .class(n_examples == 0, "no-example");
    match (got.0, reference) {
        (false, Err(_)) => Ok(info.class(true, "both-fail")),
        (true, Err(e)) => Err(format!("Trainer::train returns a model, but the learner given the stored examples fails: {e} (cfg {cfg:?})").into()),
        (false, Ok(_)) => Err(format!(
            "Trainer::train fails, but the learner given the {n_examples} stored examples ({featureless} without features) succeeds (cfg {cfg:?})"
        )
        .into()),
        (true, Ok((bias, ws))) => {
            let rec = got.1;
            ensure_eq!(
                rec.bias,
                Some(bias),
                "quantised bias differs from what the learner gives for the stored examples ({n_examples} examples, {featureless} without features, cfg {cfg:?})"
            );
            let id_of: std::collections::HashMap<&HookFeature, u32> = ids.iter().map(|(f, i)| (f, *i)).collect();
            let mut got_ws: Vec<(u32, i32)> = vec![];
            for (f, w) in &rec.boundary_weights {
                let fid = *id_of.get(f).ok_or_else(|| format!("recorded weight for a feature without id: {f:?}"))?;
                got_ws.push((fid, *w));
            }
            got_ws.sort();
            ensure_eq!(got_ws, ws, "quantised weights differ from what the learner gives for the stored examples (cfg {cfg:?})");
            Ok(info.class(true, "model-compared"))
        }
    }
}

fn long_sentence_cases() -> Vec<TrainCase> {
    use vcommon::oracle::RefSentence;
    use vcommon::train::TrainCfg;
    let mut out = vec![];
    for (k, n) in [255usize, 256, 257, 258, 259, 511, 512, 513, 1024, 70000].into_iter().enumerate() {
        let pool = ['あ', 'く', 'そ', 'に', 'a', '1', '火', 'ア'];
        let chars: Vec<char> = (0..n).map(|i| pool[(i * 5 + i / 7 + k) % pool.len()]).collect();
        let labels: Vec<u8> = (0..n - 1).map(|i| [1u8, 0, 0, 1, 2, 0, 1][(i + k) % 7]).collect();
        let dict = vec![chars[3..6].iter().collect::<String>(), chars[n - 4..].iter().collect::<String>()];
        out.push(TrainCase {
            cfg: TrainCfg { charw: 3, charn: 3, typew: 2, typen: 3, dict: dict.clone(), dictn: 2, solver: 1 },
            corpus: vec![RefSentence { chars: chars.clone(), labels: labels.clone(), tags: vec![vec![]; n], n_tags: 0 }],
            tag_dict: vec![],
            eval: vec![],
        });
        // the sentences of up to 1,024 characters again under windows wider than 127 characters:
        // relative positions of -255 .. 254 occur
        if n <= 1024 {
            let (cw, tw) = [(129u8, 2u8), (130, 128), (200, 255), (255, 129), (128, 130)][k % 5];
            out.push(TrainCase {
                cfg: TrainCfg { charw: cw, charn: 1 + (k % 2) as u8, typew: tw, typen: 1, dict, dictn: 2, solver: 1 },
                corpus: vec![RefSentence { chars, labels, tags: vec![vec![]; n], n_tags: 0 }],
                tag_dict: vec![],
                eval: vec![],
            });
        }
    }
    out
}

pub fn run(rep: &mut Report) {
    rep.run_enum(
        "long-sentences",
        "deterministic sentences of 255, 256, 257, 258, 259, 511, 512, 513, 1,024 and 70,000 \
characters (lengths around multiples of 256 and beyond 65,535) with partial annotation and \
dictionary words at the start region and at the very end, each of those up to 1,024 characters \
also under windows of 128 .. 255 characters / types; same oracle",
        false,
        long_sentence_cases().into_iter(),
        |c: &TrainCase| test_case(c).map(|mut i| { i.nontrivial = true; i }),
    );
    liblinear::toggle_liblinear_stdout_output(false);
    let _guard = crate::util::redirect_output("/verif/target/C10-train-output.log");
    rep.run_enum(
        "long-words",
        "the long-token corpora of C11 (a token of 127 / 255 / 256 / 257 / 300 characters that is a \
dictionary word and an ambiguous tagged token, buckets 1 / 4 / 255): same oracle",
        false,
        [127usize, 255, 256, 257, 300].into_iter().enumerate().flat_map(|(k, l)| [crate::checks::c11::long_word_case(l, k), crate::checks::c11::long_word_case(l, k + 1)]),
        |c: &TrainCase| test_case(c).map(|mut i| { i.nontrivial = true; i }),
    );
    let n = rep.n(15000, 500000);
    rep.run_prop(
        "learner-input",
        "generated corpora x configurations (sizes 0..4, all solvers): the stored problem (hook \
Trainer::verif_problem: labels, sparse vectors with feature ids, in stored order) is handed to \
liblinear by the harness with the trainer's parameters and the same pseudo-random state; the \
quantised bias and every quantised weight recorded by Trainer::train must equal that solution, \
and train must fail exactly when that learner run fails. Non-trivial = a corpus with an \
annotated boundary that has no feature at all next to boundaries that have some.",
        n,
        || {
            use proptest::prelude::*;
            (train::train_case(TrainGenCfg { max_sentences: 6, max_len: 8, tame: false, tag_dict: false, tag_focus: false }), 0u8..6)
                .prop_map(|(mut c, mode)| {
                    // dictionary-only and bias-only configurations: boundaries without any feature
                    match mode {
                        0 => {
                            c.cfg.charw = 0;
                            c.cfg.typew = 0;
                        }
                        1 => {
                            c.cfg.charn = 0;
                            c.cfg.typen = 0;
                        }
                        _ => {}
                    }
                    c
                })
        },
        test_learner_input,
    );
    let n = rep.n(60000, 3000000);
    rep.run_prop(
        "examples",
        "generated corpora (1-8 sentences over a 3-6 character palette; tokenized, partially \
annotated and completely unannotated sentences) x window/n-gram sizes 0..4 (incl. 0 and n > \
window) x dictionaries cut from corpus substrings x length buckets 1..4: after every add_example \
the trainer's example store (hook: Trainer::verif_examples) equals the reference list - one \
example per annotated boundary in order, label = annotation, features = RefFeatures with \
multiplicities. Non-trivial = corpus with >= 1 unknown boundary and >= 1 dictionary match.",
        n,
        || train::train_case(TrainGenCfg { max_sentences: 8, max_len: 10, tame: false, tag_dict: false, tag_focus: false }),
        test_case,
    );
}
