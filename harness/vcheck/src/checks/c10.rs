//! C10 — Training uses exactly the annotated boundaries with the documented features.

use vaporetto::verif_hooks::HookFeature;
use vaporetto::{Sentence, Trainer};
use vcommon::engine::{Info, Report, TestResult};
use vcommon::oracle::{NB, UNK, WB};
use vcommon::train::{self, TrainCase, TrainGenCfg};
#[allow(unused_imports)]
use vcommon::{ensure, ensure_eq};

pub fn test_case(case: &TrainCase) -> TestResult {
    let cfg = &case.cfg;
    let sentences: Vec<Sentence<'static, 'static>> = case
        .corpus
        .iter()
        .map(|r| r.to_sentence())
        .collect::<Result<_, _>>()?;
    let tag_dict: Vec<Sentence<'static, 'static>> = vec![];
    let mut trainer = match Trainer::new(
        cfg.charw,
        cfg.charn,
        cfg.typew,
        cfg.typen,
        cfg.dict.clone(),
        cfg.dictn,
        &tag_dict,
    ) {
        Ok(t) => t,
        // e.g. an empty dictionary word: rejected configurations are C11's business
        Err(_) => return Ok(Info::new(false).class(true, "trainer-rejected-configuration")),
    };
    let mut want: Vec<(f64, Vec<(HookFeature, f64)>)> = vec![];
    let mut unknowns = 0;
    let mut dict_match = false;
    let mut repeated = false;
    for (s, r) in sentences.iter().zip(&case.corpus) {
        trainer.add_example(s);
        for (i, &l) in r.labels.iter().enumerate() {
            if l == UNK {
                unknowns += 1;
                continue;
            }
            let f = train::ref_boundary_features(cfg, &r.chars, i);
            dict_match |= f.keys().any(|k| matches!(k, HookFeature::DictWord { .. }));
            repeated |= f.values().any(|&v| v > 1.0);
            want.push((if l == WB { 1.0 } else { 0.0 }, f.into_iter().collect()));
            let _ = NB;
        }
        // after every added sentence the example store must equal the reference so far
        let got: Vec<(f64, Vec<(HookFeature, f64)>)> = trainer
            .verif_examples()
            .into_iter()
            .map(|e| (e.label, e.features))
            .collect();
        if got.len() != want.len() {
            return Err(format!(
                "{} examples stored, reference has {} (one per annotated boundary) after sentence {:?} with labels {:?}",
                got.len(),
                want.len(),
                r.text(),
                r.labels
            )
            .into());
        }
        for (k, (g, w)) in got.iter().zip(&want).enumerate() {
            ensure_eq!(g.0, w.0, "label of example {k}");
            ensure_eq!(&g.1, &w.1, "features of example {k} (cfg {cfg:?})");
        }
    }
    Ok(Info::new(unknowns > 0 && dict_match)
        .class(unknowns > 0, "unknown-boundary-in-corpus")
        .class(dict_match, "dictionary-feature")
        .class(repeated, "repeated-dictionary-feature(count>1)")
        .class(cfg.charn > cfg.charw || cfg.typen > cfg.typew, "n>window")
        .class(cfg.charw == 0 || cfg.typew == 0, "window=0")
        .class(cfg.charw != cfg.typew, "charw!=typew")
        .class(case.corpus.iter().any(|r| r.labels.iter().all(|&l| l == UNK) && !r.labels.is_empty()), "all-unknown-sentence"))
}

fn long_sentence_cases() -> Vec<TrainCase> {
    use vcommon::oracle::RefSentence;
    use vcommon::train::TrainCfg;
    let mut out = vec![];
    for (k, n) in [255usize, 256, 257, 258, 259, 511, 512, 513, 1024, 70000].into_iter().enumerate() {
        let pool = ['あ', 'く', 'そ', 'に', 'a', '1', '火', 'ア'];
        let chars: Vec<char> = (0..n).map(|i| pool[(i * 5 + i / 7 + k) % pool.len()]).collect();
        let labels: Vec<u8> = (0..n - 1).map(|i| [1u8, 0, 0, 1, 2, 0, 1][(i + k) % 7]).collect();
        let dict = vec![chars[3..6].iter().collect::<String>(), chars[n - 4..].iter().collect::<String>()];
        out.push(TrainCase {
            cfg: TrainCfg { charw: 3, charn: 3, typew: 2, typen: 3, dict, dictn: 2, solver: 1 },
            corpus: vec![RefSentence { chars, labels, tags: vec![vec![]; n], n_tags: 0 }],
            tag_dict: vec![],
            eval: vec![],
        });
    }
    out
}

pub fn run(rep: &mut Report) {
    rep.run_enum(
        "long-sentences",
        "deterministic sentences of 255, 256, 257, 258, 259, 511, 512, 513, 1,024 and 70,000 \
characters (lengths around multiples of 256 and beyond 65,535) with partial annotation and \
dictionary words at the start region and at the very end; same oracle",
        false,
        long_sentence_cases().into_iter(),
        |c: &TrainCase| test_case(c).map(|mut i| { i.nontrivial = true; i }),
    );
    let n = rep.n(60000, 3000000);
    rep.run_prop(
        "examples",
        "generated corpora (1-8 sentences over a 3-6 character palette; tokenized, partially \
annotated and completely unannotated sentences) x window/n-gram sizes 0..4 (incl. 0 and n > \
window) x dictionaries cut from corpus substrings x length buckets 1..4: after every add_example \
the trainer's example store (hook: Trainer::verif_examples) equals the reference list - one \
example per annotated boundary in order, label = annotation, features = RefFeatures with \
multiplicities. Non-trivial = corpus with >= 1 unknown boundary and >= 1 dictionary match.",
        n,
        || train::train_case(TrainGenCfg { max_sentences: 8, max_len: 10, tame: false, tag_dict: false, tag_focus: false }),
        test_case,
    );
}
