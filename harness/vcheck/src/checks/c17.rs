//! C17 — KyTea model conversion preserves the word-segmentation model.

use std::convert::TryFrom;
use std::sync::atomic::{AtomicU64, Ordering};

use vaporetto::{KyteaModel, Model, Predictor, Sentence};
use vcommon::engine::{Info, Report, TestResult};
use vcommon::kytea::{self, KFile, KyteaCase};
use vcommon::mirror::ModelSpec;
use vcommon::oracle;
#[allow(unused_imports)]
use vcommon::{ensure, ensure_eq};

use crate::util;

static PREFIXES: AtomicU64 = AtomicU64::new(0);
static ACCEPTED_TAIL: AtomicU64 = AtomicU64::new(0);

fn convert(bytes: &[u8]) -> Result<Model, String> {
    let km = KyteaModel::read(bytes).map_err(|e| format!("KyteaModel::read: {e}"))?;
    Model::try_from(km).map_err(|e| format!("Model::try_from(KyteaModel): {e}"))
}

pub fn test_file(file: &KFile, texts: &[String], all_prefixes: bool) -> TestResult {
    let bytes = file.to_bytes();
    let (want, st) = kytea::reference_model(file)?;
    let model = convert(&bytes)?;
    let full_bytes = model.to_vec().map_err(|e| e.to_string())?;
    let mut got = ModelSpec::from_model(&model)?;
    kytea::canonical(&mut got);
    ensure_eq!(got.char_window, want.char_window, "character window");
    ensure_eq!(got.type_window, want.type_window, "type window");
    ensure_eq!(got.bias, want.bias, "bias");
    ensure_eq!(&got.char_ngrams, &want.char_ngrams, "character n-grams of the converted model");
    ensure_eq!(&got.type_ngrams, &want.type_ngrams, "character type n-grams of the converted model");
    ensure_eq!(&got.dict, &want.dict, "dictionary of the converted model");
    ensure!(got.tag_models.is_empty(), "converted model has tag models");
    // it segments every text as those weights dictate
    let p = Predictor::new(model, false).map_err(|e| format!("Predictor::new on the converted model: {e}"))?;
    let mut contributions = 0;
    for t in texts {
        let cs = util::chars(t);
        let mut s = Sentence::from_raw(t.clone()).map_err(|e| e.to_string())?;
        p.predict(&mut s);
        let (scores, sst) = oracle::ref_scores(&want, &cs);
        ensure_eq!(util::scores_i64(&s), scores, "scores of {t:?} under the converted model");
        contributions += sst.contributions;
    }
    // the reader takes any BufRead: buffering must not matter (a BufReader hands out short reads
    // at its buffer edges)
    for cap in [1usize, 2, 3, 5, 7, 8, 13, 64] {
        let rdr = std::io::BufReader::with_capacity(cap, &bytes[..]);
        let km = KyteaModel::read(rdr).map_err(|e| format!("KyteaModel::read through a BufReader of capacity {cap}: {e}"))?;
        let m = Model::try_from(km).map_err(|e| format!("conversion (BufReader capacity {cap}): {e}"))?;
        ensure!(
            m.to_vec().map_err(|e| e.to_string())? == full_bytes,
            "the converted model depends on the reader's buffering (BufReader capacity {cap})"
        );
    }
    // crash points: every proper prefix is rejected with an error, never a panic
    let step = if all_prefixes { 1 } else { 1 + bytes.len() / 500 };
    let mut k = 0;
    while k < bytes.len() {
        match KyteaModel::read(&bytes[..k]) {
            Err(_) => {}
            Ok(km) => {
                // Real KyTea files carry sections after the last one the converter reads, so a
                // cut inside that tail is legitimately accepted. An accepted prefix must never
                // be taken for a different model.
                let same = match Model::try_from(km) {
                    Ok(m) => m.to_vec().ok() == Some(full_bytes.clone()),
                    Err(_) => false,
                };
                if !same || k < bytes.len() - file.trailer.len() {
                    return Err(format!(
                        "the {k}-byte prefix of a {}-byte KyTea model ({} bytes of unread tail) is accepted (identical model = {same})",
                        bytes.len(),
                        file.trailer.len()
                    )
                    .into());
                }
                ACCEPTED_TAIL.fetch_add(1, Ordering::Relaxed);
            }
        }
        PREFIXES.fetch_add(1, Ordering::Relaxed);
        k += if k < 256 || k + 128 >= bytes.len() { 1 } else { step };
    }
    Ok(Info::new(st.word_in_two_dicts && st.type_ngrams > 0)
        .class(st.word_in_two_dicts, "word-in->=2-member-dictionaries")
        .class(st.skipped_type_ngrams > 0, "type-ngram-with-0x04-skipped")
        .class(st.cut_entries, "entry-longer-than-window(cut)")
        .class(file.n_tags > 0, "tag-slots")
        .class(!file.subword.states.is_empty(), "subword-dictionary")
        .class(file.dict.states.is_empty(), "no-word-dictionary")
        .class(contributions > 0, "text-matches-model"))
}

/// The same statement for the shipped converter program (`convert_kytea_model --model-in F
/// --model-out G`): G (zstd) holds the reference conversion of F; a truncated F makes the program
/// exit with an error status, not a panic.
pub fn test_tool(file: &KFile) -> TestResult {
    let bytes = file.to_bytes();
    let (want, st) = kytea::reference_model(file)?;
    let dir = util::Scratch::new("c17");
    let (fin, fout) = (dir.path("kytea.bin"), dir.path("model.zst"));
    let run = |data: &[u8]| -> Result<util::RunOut, String> {
        std::fs::write(&fin, data).map_err(|e| e.to_string())?;
        let _ = std::fs::remove_file(&fout);
        if data.len() % 2 == 0 {
            util::prefill(&fout, data.len());
        }
        util::run_tool(
            "convert_kytea_model",
            &["--model-in".into(), fin.to_string_lossy().to_string(), "--model-out".into(), fout.to_string_lossy().to_string()],
            b"",
        )
    };
    let r = run(&bytes)?;
    ensure!(!r.stderr.contains("panicked"), "convert_kytea_model crashed on a well-formed file: {}", r.stderr.lines().find(|l| l.contains("panicked")).unwrap_or(""));
    ensure!(r.code == Some(0), "convert_kytea_model exits with {:?} on a well-formed file: {}", r.code, r.stderr.lines().last().unwrap_or(""));
    let z = std::fs::read(&fout).map_err(|e| format!("convert_kytea_model wrote no model file: {e}"))?;
    let raw = util::zstd_decode(&z)?;
    let (model, rest) = Model::read_slice(&raw).map_err(|e| format!("the written model cannot be read: {e}"))?;
    ensure!(rest.is_empty(), "the written model file has {} trailing bytes", rest.len());
    let mut got = ModelSpec::from_model(&model)?;
    kytea::canonical(&mut got);
    ensure_eq!(got.char_window, want.char_window, "character window (tool)");
    ensure_eq!(got.type_window, want.type_window, "type window (tool)");
    ensure_eq!(got.bias, want.bias, "bias (tool)");
    ensure_eq!(&got.char_ngrams, &want.char_ngrams, "character n-grams of the model written by the tool");
    ensure_eq!(&got.type_ngrams, &want.type_ngrams, "character type n-grams of the model written by the tool");
    ensure_eq!(&got.dict, &want.dict, "dictionary of the model written by the tool");
    ensure!(got.tag_models.is_empty(), "model written by the tool has tag models");
    // the same file converted onto itself (--model-out names the input): the file is read before
    // anything is written, so the result is the same model
    if bytes.len() % 4 == 1 {
        let same = dir.path("inplace.bin");
        std::fs::write(&same, &bytes).map_err(|e| e.to_string())?;
        let p = same.to_string_lossy().to_string();
        let r = util::run_tool("convert_kytea_model", &["--model-in".into(), p.clone(), "--model-out".into(), p], b"")?;
        ensure!(!r.stderr.contains("panicked"), "convert_kytea_model crashed converting a file onto itself: {}", r.stderr);
        ensure!(r.code == Some(0), "convert_kytea_model exits with {:?} when --model-out names the input file: {}", r.code, r.stderr.lines().last().unwrap_or(""));
        let z2 = std::fs::read(&same).map_err(|e| e.to_string())?;
        ensure!(util::zstd_decode(&z2)? == raw, "converting a file onto itself gives another model than converting it into a new file");
    }
    // truncated inputs (outside the unread tail): error status, no panic
    let body = bytes.len() - file.trailer.len();
    let mut cuts = vec![0usize, 1, body / 3, body / 2, body.saturating_sub(1)];
    cuts.dedup();
    for k in cuts {
        if k >= body {
            continue;
        }
        let r = run(&bytes[..k])?;
        ensure!(!r.stderr.contains("panicked"), "convert_kytea_model crashed on the {k}-byte prefix: {}", r.stderr.lines().find(|l| l.contains("panicked")).unwrap_or(""));
        ensure!(r.code.is_some() && r.code != Some(0), "convert_kytea_model exits with {:?} on the {k}-byte prefix of a {}-byte file", r.code, bytes.len());
    }
    Ok(Info::new(st.word_in_two_dicts && st.type_ngrams > 0)
        .class(st.word_in_two_dicts, "word-in->=2-member-dictionaries")
        .class(file.n_tags > 0, "tag-slots"))
}

/// KyTea files whose dictionary holds words of `len` characters (and len + 1, len + 3) next to
/// short ones, in one or two member dictionaries, with distinct weights per length bucket.
fn long_word_case(len: usize, k: usize) -> KyteaCase {
    // raw character selectors are resolved with pick(i, 6) over the first six text characters
    let sel = |c: usize| (((c % 6) << 16) / 6 + 1) as u16;
    let word = |n: usize, salt: usize| -> Vec<u16> { (0..n).map(|i| sel((i * i + i / 5 + salt) % 5)).collect() };
    let raw = kytea::RawKytea {
        n_tags: 0,
        char_w: 2,
        type_w: 1,
        dict_n: [4u8, 1, 3][k % 3],
        n_dicts: 2,
        char_ngrams: vec![(vec![sel(0)], vec![5, -7, 11, 13, -17, 19, 23, 29, 31, 37, 41, 43], 0)],
        type_ngrams: vec![(vec![0], vec![3, -3, 2, 1, 1, 1, 1, 1, 1, 1, 1, 1], 0)],
        words: vec![
            (vec![sel(5)], 1),
            (word(len, 0), 3),
            (word(len + 1, 1), 2),
            (word(len + 3, 2), 1),
            (word(3, 3), 3),
        ],
        dict_vec: (0..100).map(|i| (i * 37 % 201) as i16 - 100).collect(),
        biases: vec![-40],
        shuffle: (0..64).map(|i| (i * 7919 + k * 13) as u16).collect(),
        global_models: vec![0, 0, 0],
        subword: false,
        word_tag_models: false,
        texts: vec![],
    };
    let mut case = kytea::resolve_kytea(&raw);
    // texts: every long word between two other characters
    let chars: Vec<char> = case.file.char_map.chars().collect();
    for e in &case.file.dict.entries {
        let w: String = e.word.iter().map(|&i| chars[i as usize - 1]).collect();
        case.texts.push(format!("。{w}。"));
    }
    case
}

/// A small KyTea file whose character map is extended by unused characters (the numbers of the
/// used ones stay) to `target` bytes of UTF-8, or to the format's limit of 65,535 characters when
/// `target` is 0.
fn big_char_map_case(target: usize, k: usize) -> KyteaCase {
    let mut case = long_word_case(5, k);
    let used: std::collections::HashSet<char> = case.file.char_map.chars().collect();
    let three = (0x3400u32..=0x4DBF).chain(0x4E00..=0x9FFF).chain(0xAC00..=0xD7A3).chain(0xA000..=0xA48C).filter_map(char::from_u32);
    let mut three = three.filter(|c| !used.contains(c));
    let mut one = "~}{|`^_][@?>=<;:".chars().filter(|c| !used.contains(c));
    let map = &mut case.file.char_map;
    if target == 0 {
        let mut n = map.chars().count();
        let mut four = (0x20000u32..0x2A6DF).filter_map(char::from_u32).filter(|c| !used.contains(c));
        while n < 65_535 {
            map.push(if n % 2 == 0 { three.next() } else { four.next() }.expect("enough characters"));
            n += 1;
        }
    } else {
        assert!(map.len() <= target);
        for _ in 0..(target - map.len()) % 3 {
            map.push(one.next().expect("enough one-byte characters"));
        }
        while map.len() < target {
            map.push(three.next().expect("enough three-byte characters"));
        }
        assert_eq!(map.len(), target);
    }
    case
}

/// A KyTea file with `n_words` dictionary words (seven characters over six letters) and a few
/// hundred n-grams: the converted model is far larger than any I/O buffer (about 25 bytes per
/// word).
fn big_file_case(n_words: usize) -> KyteaCase {
    let sel = |c: usize| (((c % 6) << 16) / 6 + 1) as u16;
    let word = |k: usize| -> Vec<u16> {
        let mut k = k;
        (0..7)
            .map(|_| {
                let c = sel(k % 6);
                k /= 6;
                c
            })
            .collect()
    };
    let raw = kytea::RawKytea {
        n_tags: 0,
        char_w: 3,
        type_w: 2,
        dict_n: 4,
        n_dicts: 3,
        char_ngrams: (0..200).map(|k| (vec![sel(k), sel(k / 6), sel(k / 36)], (0..12).map(|j| ((k * 7 + j * 3) % 41) as i16 - 20).collect(), 0)).collect(),
        type_ngrams: (0..30).map(|k| (vec![(k * 11000 % 65536) as u16, (k * 7000 % 65536) as u16], (0..12).map(|j| ((k + j) % 9) as i16 - 4).collect(), 0)).collect(),
        words: (0..n_words).map(|k| (word(k), (1 + k % 7) as u8)).collect(),
        dict_vec: (0..100).map(|i| (i * 37 % 201) as i16 - 100).collect(),
        biases: vec![-12],
        shuffle: (0..64).map(|i| (i * 7919 + 5) as u16).collect(),
        global_models: vec![0, 0, 0],
        subword: false,
        word_tag_models: false,
        texts: vec![(0..40).map(|i| (i * 9000 % 65536) as u16).collect(), (0..16).map(|i| (i * 4000 % 65536) as u16).collect()],
    };
    kytea::resolve_kytea(&raw)
}

pub fn run(rep: &mut Report) {
    if let Err(e) = kytea::self_test() {
        eprintln!("harness self-test failed (cannot speak the KyTea format): {e}");
        std::process::exit(2);
    }
    rep.run_enum(
        "sample-file",
        "resources/kytea-model.bin parsed by the harness's own reader: converted model equals the \
reference conversion, predictions equal RefScore, every proper prefix is rejected",
        false,
        vec![KyteaCase {
            file: KFile::parse(&std::fs::read("/repo/resources/kytea-model.bin").unwrap_or_default()).unwrap_or_else(|e| {
                eprintln!("cannot parse the KyTea sample: {e}");
                std::process::exit(2)
            }),
            texts: vec!["火星猫".into(), "まぁ社長は火星猫だ".into()],
        }]
        .into_iter(),
        |c: &KyteaCase| test_file(&c.file, &c.texts, true).map(|mut i| { i.nontrivial = true; i }),
    );
    rep.run_enum(
        "long-words",
        "KyTea files whose dictionary holds words of 254..4,099 characters (lengths around 256, 512 \
and 4,096) in one and two member dictionaries, buckets 1, 3 and 4: same oracle as generated-files \
(prefixes strided)",
        false,
        [254usize, 255, 256, 257, 258, 259, 260, 300, 508, 511, 512, 513, 1024, 4096]
            .into_iter()
            .enumerate()
            .map(|(k, l)| long_word_case(l, k)),
        |c: &KyteaCase| test_file(&c.file, &c.texts, false).map(|mut i| { i.nontrivial = true; i }),
    );
    rep.run_enum(
        "big-character-maps",
        "small KyTea files whose character map is extended by unused characters to 65,534..65,538, \
66,500 and 100,000 bytes of UTF-8 and to the format's limit of 65,535 characters (about 229 KB), \
through the library (prefixes strided) and the shipped convert_kytea_model program: same oracles",
        false,
        [65_534usize, 65_535, 65_536, 65_537, 65_538, 66_500, 100_000, 0]
            .into_iter()
            .enumerate()
            .map(|(k, t)| big_char_map_case(t, k)),
        |c: &KyteaCase| {
            test_file(&c.file, &c.texts, false)?;
            test_tool(&c.file).map(|mut i| {
                i.nontrivial = true;
                i
            })
        },
    );
    let n = rep.n(1500, 100000);
    rep.run_prop(
        "generated-files",
        "structured KyTea models written by the harness's own writer (validated byte-identically \
against resources/kytea-model.bin): windows 1..5, tries with shuffled state numbers, arbitrary \
failure links, reversed goto order and extra suffix outputs, entries longer than 2W-n+1 (must be \
cut), type n-grams over DRHTKO plus the tolerated 0x04 letter (must be skipped), 0..8 member \
dictionaries with membership masks, buckets 1..4, 0..3 tag slots with absent / plain / lookup \
global models, per-word tag models, sub-word dictionary present/absent. The mirror-decoded \
converted model equals the reference conversion (n-gram sets, weights, bias, windows, summed \
dictionary weights); predictions equal RefScore of it; EVERY proper prefix of the file yields \
Err without panic. Non-trivial = a word in >= 2 member dictionaries and >= 1 type n-gram.",
        n,
        kytea::kytea_case,
        |c: &KyteaCase| test_file(&c.file, &c.texts, c.file.to_bytes().len() <= 3000),
    );
    rep.run_enum(
        "big-files",
        "KyTea files with 6,000, 40,000 and 70,000 dictionary words (converted model of 150 KB .. 1.8 MB, \
larger than any I/O buffer; the last one a trie of more than 65,536 entries) through the library (prefixes strided) and through the shipped \
convert_kytea_model program: same oracles",
        false,
        [6_000usize, 40_000, 70_000].into_iter().map(big_file_case),
        |c: &KyteaCase| {
            test_file(&c.file, &c.texts, false)?;
            test_tool(&c.file).map(|mut i| {
                i.nontrivial = true;
                i
            })
        },
    );
    let n = rep.n(400, 10000);
    rep.run_prop(
        "convert-tool",
        "the shipped convert_kytea_model program on generated KyTea files (and resources/kytea- \
model.bin from the corpus): exit 0 and a zstd model file holding exactly the reference conversion; \
five truncation points per file give an error exit without a panic",
        n,
        kytea::kytea_case,
        |c: &KyteaCase| test_tool(&c.file),
    );
    rep.extra("prefixes_executed", serde_json::json!(PREFIXES.load(Ordering::Relaxed)));
    rep.extra("prefixes_cut_inside_the_unread_tail_accepted_with_identical_model", serde_json::json!(ACCEPTED_TAIL.load(Ordering::Relaxed)));
    rep.assume("the L/I/R slot order inside dict_vec is pinned from the converter at f3071fe (consistent with the KyTea doctest); no KyTea source is available offline");
    rep.assume("arbitrary corrupt KyTea files are outside the property (prefixes only)");
}
