//! C14 — A serialised predictor behaves exactly like the original.

use proptest::prelude::*;
use serde::{Deserialize, Serialize};
use vaporetto::{Predictor, Sentence};
use vcommon::engine::{Info, Report, TestResult};
use vcommon::gen::{self, ModelCfg};
use vcommon::mirror::ModelSpec;
use vcommon::oracle;
#[allow(unused_imports)]
use vcommon::{ensure, ensure_eq};

use crate::util;

#[derive(Clone, Debug, Serialize, Deserialize)]
pub struct SerCase {
    pub spec: ModelSpec,
    pub texts: Vec<String>,
    pub trailing: Vec<u8>,
}

type Cands = Vec<Vec<Vec<(String, i64)>>>;

fn run_predictor(
    p: &Predictor,
    text: &str,
    tags: bool,
) -> Result<(Vec<i64>, Vec<u8>, usize, Vec<Option<String>>, Option<Cands>), String> {
    let mut s = Sentence::from_raw(text.to_string()).map_err(|e| e.to_string())?;
    p.predict(&mut s);
    let mut cands = None;
    if tags {
        s.fill_tags();
        cands = Some(
            s.iter_tokens()
                .map(|t| {
                    t.tag_candidates()
                        .into_iter()
                        .map(|c| c.into_iter().map(|(n, sc)| (n.to_string(), sc as i64)).collect())
                        .collect()
                })
                .collect(),
        );
    }
    Ok((util::scores_i64(&s), util::labels(&s), s.n_tags(), util::flat_tags(&s), cands))
}

pub fn test_case(case: &SerCase) -> TestResult {
    let spec = &case.spec;
    let mut contributions = 0;
    let mut tag_contrib = false;
    let mut max_bytes = 0usize;
    for tags in [false, true] {
        let mut p = util::predictor(spec, tags)?;
        let bytes = p.serialize_to_vec().map_err(|e| format!("serialize_to_vec: {e}"))?;
        max_bytes = max_bytes.max(bytes.len());
        let mut joined = bytes.clone();
        joined.extend_from_slice(&case.trailing);
        let (mut p2, rest) = unsafe { Predictor::deserialize_from_slice_unchecked(&joined) }
            .map_err(|e| format!("deserialize_from_slice_unchecked rejects self-produced bytes: {e}"))?;
        ensure_eq!(rest, &case.trailing[..], "rest after the serialised predictor (tags={tags})");
        // several predictors stored back to back in one buffer - what the returned rest is for:
        // predictor ++ predictor ++ trailing bytes, and single bytes that look like markers
        {
            let mut twice = bytes.clone();
            twice.extend_from_slice(&bytes);
            twice.extend_from_slice(&case.trailing);
            let (_, rest1) = unsafe { Predictor::deserialize_from_slice_unchecked(&twice) }
                .map_err(|e| format!("deserialize (two predictors in one buffer): {e}"))?;
            ensure!(rest1 == &twice[bytes.len()..], "rest after the first of two serialised predictors has {} bytes instead of {} (tags={tags})", rest1.len(), twice.len() - bytes.len());
            let (_, rest2) = unsafe { Predictor::deserialize_from_slice_unchecked(rest1) }
                .map_err(|e| format!("deserialize (second of two predictors): {e}"))?;
            ensure_eq!(rest2, &case.trailing[..], "rest after the second of two serialised predictors (tags={tags})");
            for b in [0u8, 1, 2, 0xff] {
                let mut one = bytes.clone();
                one.push(b);
                let (_, r) = unsafe { Predictor::deserialize_from_slice_unchecked(&one) }.map_err(|e| format!("deserialize (+ one byte {b:#04x}): {e}"))?;
                ensure_eq!(r, &[b][..], "rest after a serialised predictor followed by the single byte {b:#04x} (tags={tags})");
            }
        }
        if tags {
            p.store_tag_scores(true);
            p2.store_tag_scores(true);
        }
        // a second generation must behave the same as well
        let bytes2 = p2.serialize_to_vec().map_err(|e| format!("re-serialize: {e}"))?;
        let (mut p3, rest3) = unsafe { Predictor::deserialize_from_slice_unchecked(&bytes2) }
            .map_err(|e| format!("second-generation deserialize: {e}"))?;
        ensure!(rest3.is_empty(), "second generation leaves {} bytes", rest3.len());
        if tags {
            p3.store_tag_scores(true);
        }
        for text in &case.texts {
            let a = run_predictor(&p, text, tags)?;
            let b = run_predictor(&p2, text, tags)?;
            let c = run_predictor(&p3, text, tags)?;
            ensure_eq!(&b, &a, "deserialised predictor differs from the original on {text:?} (tags={tags})");
            ensure_eq!(&c, &a, "second-generation predictor differs from the original on {text:?} (tags={tags})");
            // tie to ground truth so that "both wrong in the same way" cannot pass
            let cs = util::chars(text);
            let (scores, st) = oracle::ref_scores(spec, &cs);
            ensure_eq!(&a.0, &scores, "scores differ from the linear model on {text:?}");
            if tags {
                let (n_tags, flat, per_token, ts) = oracle::ref_tags(spec, &cs, &a.1);
                ensure_eq!(a.2, n_tags, "n_tags on {text:?}");
                ensure_eq!(&a.3, &flat, "tags differ from the reference on {text:?}");
                let want: Cands = per_token.iter().map(|t| t.candidates.clone()).collect();
                ensure_eq!(a.4.as_ref().unwrap(), &want, "candidate scores differ from the reference on {text:?}");
                tag_contrib |= ts.contributions > 0;
            } else {
                contributions += st.contributions;
            }
        }
    }
    let trailing_zero = spec.char_ngrams.iter().any(|g| g.weights.len() <= 8 && g.weights.last() == Some(&0))
        || spec.type_ngrams.iter().any(|g| g.weights.len() <= 8 && g.weights.last() == Some(&0))
        || spec.dict.iter().any(|d| d.weights.len() <= 8 && d.weights.last() == Some(&0));
    let has_tag_entries = spec.tag_models.iter().any(|t| !t.char_ngrams.is_empty() || !t.type_ngrams.is_empty());
    Ok(Info::new(contributions > 0)
        .class(trailing_zero, "fixed-vector-with-trailing-zeros(trim path)")
        .class(has_tag_entries, "tag-weight-hash-map-entries")
        .class(tag_contrib, "tag-ngram-contribution")
        .class(!spec.type_ngrams.is_empty() && spec.type_window <= 3, "type-cache-scorer")
        .class(!spec.type_ngrams.is_empty() && spec.type_window > 3, "type-automaton-scorer")
        .class(!case.trailing.is_empty(), "trailing-bytes")
        .class(max_bytes > 1 << 16, "serialised>64KiB")
        .class(max_bytes > 1 << 24, "serialised>16MiB")
        .class(max_bytes > 1 << 25, "serialised>32MiB")
        .class(max_bytes > 1 << 28, "serialised>256MiB")
        .class(
            spec.char_ngrams.is_empty() && spec.dict.is_empty() || spec.type_ngrams.is_empty(),
            "a-scorer-absent(None on the wire)",
        ))
}

/// Deterministic large models: sizes that cross internal thresholds a small random model never
/// reaches (thousands of tag models / hash-map entries, more than 65,535 patterns).
#[derive(Clone, Debug, Serialize, Deserialize)]
pub struct LargeCase {
    pub n_tag_models: usize,
    pub n_char_ngrams: usize,
    pub n_words: usize,
    /// additional 6-character dictionary words (size driver: about 107 bytes of serialised
    /// predictor per word)
    #[serde(default)]
    pub n_long_words: usize,
    /// an additional text of this many characters (0: none)
    #[serde(default)]
    pub long_text: usize,
}

pub fn large_model(c: &LargeCase) -> SerCase {
    use vcommon::mirror::{NgramSpec, TagModelSpec, TagNgramSpec, TagWeightSpec, WordSpec};
    let ch = |i: usize| char::from_u32(0x4E00 + i as u32).unwrap();
    let mut spec = ModelSpec {
        char_window: 2,
        type_window: 2,
        bias: -3,
        ..ModelSpec::default()
    };
    // distinct 2-character n-grams over a 300-character alphabet
    for k in 0..c.n_char_ngrams {
        let (a, b) = (k / 300, k % 300);
        spec.char_ngrams.push(NgramSpec {
            ngram: [ch(a), ch(b)].iter().collect(),
            weights: vec![(k % 11) as i32 - 5, (k % 7) as i32 - 3, (k % 5) as i32 - 2],
        });
    }
    spec.type_ngrams.push(NgramSpec { ngram: vec![5, 5], weights: vec![1, -1, 2] });
    for k in 0..c.n_words {
        let w: String = [ch(k), ch(k + 1), ch(k + 2)].iter().collect();
        spec.dict.push(WordSpec { word: w, weights: vec![7, -(k as i32 % 9), 3, 11], comment: String::new() });
    }
    let long_word = |k: usize| -> String {
        let mut k = k;
        (0..6)
            .map(|_| {
                let c = ch(1000 + k % 300);
                k /= 300;
                c
            })
            .collect()
    };
    for k in 0..c.n_long_words {
        spec.dict.push(WordSpec {
            word: long_word(k),
            weights: vec![(k % 13) as i32 - 6, 5, -(k as i32 % 3), 2, 1, -4, 9],
            comment: String::new(),
        });
    }
    for i in 0..c.n_tag_models {
        let tok: String = ch(i).to_string();
        let mut tm = TagModelSpec {
            token: tok.clone(),
            tags: vec![vec![format!("A{i}"), format!("B{i}")]],
            char_ngrams: vec![],
            type_ngrams: vec![],
            bias: vec![(i % 7) as i32 - 3, (i % 5) as i32 - 2],
        };
        if i % 3 == 0 {
            tm.char_ngrams.push(TagNgramSpec {
                ngram: tok,
                weights: vec![TagWeightSpec { rel_position: 0, weights: vec![(i % 4) as i32, 2] }],
            });
        }
        spec.tag_models.push(tm);
    }
    // texts that walk over every tag-model token; single-character tokens are forced by the
    // positive... (boundaries are whatever the model predicts; RefTags follows them)
    let n = c.n_tag_models.max(300);
    let mut texts = vec![];
    let mut i = 0;
    while i < n {
        let t: String = (i..(i + 125).min(n)).map(ch).collect();
        texts.push(t);
        i += 125;
    }
    if c.n_long_words > 0 {
        let n = c.n_long_words;
        texts.push([0, 1, n - 1, n / 2, n / 3 + 7].iter().map(|&k| long_word(k)).collect());
        texts.push(format!("{}{}", ch(3), long_word(n - 2)));
    }
    if c.long_text > 0 {
        texts.push((0..c.long_text).map(|i| ch((i * 7 + i / 13) % 300)).collect());
    }
    SerCase { spec, texts, trailing: vec![9, 8, 7] }
}

/// Lengths on both sides of the boundaries of the variable-length integer encoding (250 | 251,
/// 65,535 | 65,536): weight vectors (a dictionary word of n characters has n + 1 weights; an
/// n-gram in window W has 2W - n + 1), strings, tag lists.
pub fn varint_cases() -> Vec<SerCase> {
    use vcommon::mirror::{NgramSpec, TagModelSpec, TagNgramSpec, TagWeightSpec, WordSpec};
    let ch = |i: usize| char::from_u32(0x4E00 + (i % 300) as u32).unwrap();
    let mut out = vec![];
    for (k, n) in [248usize, 249, 250, 251, 252, 300, 16_383, 16_384, 32_767].into_iter().enumerate() {
        let word: String = (0..n).map(|i| ch(i * 7 + i / 9 + k)).collect();
        let mut spec = ModelSpec { char_window: 2, type_window: 1, bias: -3, ..ModelSpec::default() };
        spec.dict.push(WordSpec { word: word.clone(), weights: (0..=n).map(|i| ((i * 31 + k) % 201) as i32 - 100).collect(), comment: String::new() });
        spec.char_ngrams.push(NgramSpec { ngram: [ch(1), ch(2)].iter().collect(), weights: vec![4, -3, 2] });
        spec.tag_models.push(TagModelSpec {
            token: [ch(5)].iter().collect(),
            tags: vec![(0..n.min(300)).map(|j| format!("t{j}")).collect(), vec!["only".into()]],
            char_ngrams: vec![TagNgramSpec { ngram: [ch(6)].iter().collect(), weights: vec![TagWeightSpec { rel_position: 1, weights: (0..n.min(300)).map(|j| (j % 7) as i32 - 3).collect() }] }],
            type_ngrams: vec![],
            bias: (0..n.min(300)).map(|j| (j % 5) as i32).collect(),
        });
        out.push(SerCase { spec, texts: vec![format!("{}{}{}", ch(5), word, ch(6)), [ch(5), ch(6), ch(1), ch(2)].iter().collect()], trailing: vec![1, 0xfb, 0xfc] });
    }
    // windows whose weight vectors cross 250 / 251 entries: 2W - n + 1 with n = 1
    for w in [124u8, 125, 126, 127, 255] {
        let mut spec = ModelSpec { char_window: w, type_window: w, bias: 2, ..ModelSpec::default() };
        spec.char_ngrams.push(NgramSpec { ngram: "a".into(), weights: (0..2 * w as usize).map(|i| (i % 9) as i32 - 4).collect() });
        spec.type_ngrams.push(NgramSpec { ngram: vec![2, 2], weights: (0..2 * w as usize - 1).map(|i| (i % 5) as i32 - 2).collect() });
        out.push(SerCase { spec, texts: vec!["abaab".into(), "a".repeat(300)], trailing: vec![0xfb] });
    }
    // tag n-grams at the largest relative positions a byte can hold (tables of 255 / 256 rows per
    // token), with small and with 255-wide windows, for the character and the type scorer
    for (k, (w, rel)) in [(2u8, 254u8), (2, 255), (255, 3), (255, 255), (254, 254)].into_iter().enumerate() {
        // bias 100: every character is a token of its own, so every "b" is tagged
        let mut spec = ModelSpec { char_window: w, type_window: w, bias: 100, ..ModelSpec::default() };
        spec.char_ngrams.push(NgramSpec { ngram: "a".into(), weights: (0..2 * w as usize).map(|i| (i % 9) as i32 - 4).collect() });
        spec.type_ngrams.push(NgramSpec { ngram: vec![2], weights: (0..2 * w as usize).map(|i| (i % 5) as i32 - 2).collect() });
        spec.tag_models.push(TagModelSpec {
            token: "b".into(),
            tags: vec![vec!["A".into(), "B".into(), "C".into()]],
            char_ngrams: vec![
                TagNgramSpec { ngram: "b".into(), weights: vec![TagWeightSpec { rel_position: 0, weights: vec![1, 9 + k as i32, 2] }] },
                TagNgramSpec {
                    ngram: "a".into(),
                    weights: vec![
                        TagWeightSpec { rel_position: 1, weights: vec![30, -2, 4] },
                        TagWeightSpec { rel_position: rel, weights: vec![50, -7, 3] },
                    ],
                },
            ],
            type_ngrams: vec![TagNgramSpec {
                ngram: vec![2, 2],
                weights: vec![
                    TagWeightSpec { rel_position: 1, weights: vec![-3, 100, 5] },
                    TagWeightSpec { rel_position: rel, weights: vec![8, 8, -60] },
                ],
            }],
            bias: vec![5, 0, 7],
        });
        let long = format!("ab{}aa", "c".repeat(rel as usize - 1));
        out.push(SerCase { spec, texts: vec!["abab".into(), "b".into(), long, "ba b ab".into()], trailing: vec![0, 0xff] });
    }
    out
}

pub fn case_strategy() -> impl Strategy<Value = SerCase> {
    (
        prop_oneof![
            1 => gen::model_case(ModelCfg { allow_255: false, max_texts: 3, ..ModelCfg::BOUNDARY }),
            2 => gen::model_case(ModelCfg::TAGGED),
            // windows of 255: tag weight tables with 256 relative positions
            1 => gen::model_case(ModelCfg { allow_255: true, max_texts: 2, ..ModelCfg::TAGGED }),
        ],
        proptest::collection::vec(any::<u8>(), 0..=64),
    )
        .prop_map(|(mc, trailing)| SerCase {
            spec: mc.spec,
            texts: mc.texts,
            trailing,
        })
}

pub fn run(rep: &mut Report) {
    rep.run_enum(
        "large-models",
        "deterministic large models crossing size thresholds no small random model reaches: \
5,000 tag models (hash maps with > 4,096 entries), 70,000 character n-grams (> 65,535 patterns), \
hundreds of dictionary words, and a dictionary of 400,000 (thorough: 3,000,000) words whose \
serialised predictor exceeds 2^25 (2^28) bytes; same round-trip + reference oracle on texts that walk over every \
tag-model token",
        false,
        vec![
            LargeCase { n_tag_models: 5000, n_char_ngrams: 300, n_words: 40, n_long_words: 0, long_text: 0 },
            LargeCase { n_tag_models: 200, n_char_ngrams: 70000, n_words: 250, n_long_words: 0, long_text: 0 },
            // serialised size above 2^24, 2^25 bytes (thorough: above 2^28)
            LargeCase { n_tag_models: 20, n_char_ngrams: 300, n_words: 10, n_long_words: rep.n(400_000, 3_000_000) as usize, long_text: 0 },
            // table sizes that are exact powers of two (block-wise readers / writers)
            LargeCase { n_tag_models: 4096, n_char_ngrams: 4096, n_words: 4096, n_long_words: 0, long_text: 0 },
            LargeCase { n_tag_models: 0, n_char_ngrams: 8192, n_words: 8192, n_long_words: 0, long_text: 0 },
            LargeCase { n_tag_models: 1, n_char_ngrams: 65536, n_words: 0, n_long_words: 0, long_text: 0 },
            // texts above 65,535 characters through the reloaded predictor
            LargeCase { n_tag_models: 20, n_char_ngrams: 300, n_words: 10, n_long_words: 0, long_text: 70_000 },
            LargeCase { n_tag_models: 20, n_char_ngrams: 300, n_words: 10, n_long_words: 0, long_text: 65_536 },
        ]
        .into_iter(),
        |c: &LargeCase| test_case(&large_model(c)).map(|mut i| { i.nontrivial = true; i }),
    );
    rep.run_enum(
        "varint-boundaries",
        "models whose weight vectors, strings and tag lists have 248 .. 252, 300, 16,383, 16,384 \
and 32,767 entries (both sides of the boundaries of the variable-length integer encoding) and \
windows 124 .. 127, 255; tag n-grams at relative positions 254 / 255 (tag weight tables of 255 / \
256 rows) with windows 2, 254 and 255: same oracle",
        false,
        varint_cases().into_iter(),
        |c: &SerCase| test_case(c).map(|mut i| { i.nontrivial = true; i }),
    );
    let n = rep.n(12000, 600000);
    rep.run_prop(
        "serialize-deserialize",
        "generated models (with/without tag models; type windows on both sides of the cache limit; \
weight vectors with trailing zeros) -> Predictor with predict_tags off/on -> serialize_to_vec ++ \
0..64 trailing bytes -> deserialize_from_slice_unchecked: the rest equals the trailing bytes; the \
deserialised predictor and a second-generation one give identical scores, boundaries, tags and \
stored candidate scores on every text, and all equal RefScore/RefTags. Non-trivial = a model \
entry contributes to an existing boundary.",
        n,
        case_strategy,
        test_case,
    );
}
