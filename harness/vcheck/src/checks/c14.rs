//! C14 — A serialised predictor behaves exactly like the original.

use proptest::prelude::*;
use serde::{Deserialize, Serialize};
use vaporetto::{Predictor, Sentence};
use vcommon::engine::{Info, Report, TestResult};
use vcommon::gen::{self, ModelCfg};
use vcommon::mirror::ModelSpec;
use vcommon::oracle;
#[allow(unused_imports)]
use vcommon::{ensure, ensure_eq};

use crate::util;

#[derive(Clone, Debug, Serialize, Deserialize)]
pub struct SerCase {
    pub spec: ModelSpec,
    pub texts: Vec<String>,
    pub trailing: Vec<u8>,
}

type Cands = Vec<Vec<Vec<(String, i64)>>>;

fn run_predictor(
    p: &Predictor,
    text: &str,
    tags: bool,
) -> Result<(Vec<i64>, Vec<u8>, usize, Vec<Option<String>>, Option<Cands>), String> {
    let mut s = Sentence::from_raw(text.to_string()).map_err(|e| e.to_string())?;
    p.predict(&mut s);
    let mut cands = None;
    if tags {
        s.fill_tags();
        cands = Some(
            s.iter_tokens()
                .map(|t| {
                    t.tag_candidates()
                        .into_iter()
                        .map(|c| c.into_iter().map(|(n, sc)| (n.to_string(), sc as i64)).collect())
                        .collect()
                })
                .collect(),
        );
    }
    Ok((util::scores_i64(&s), util::labels(&s), s.n_tags(), util::flat_tags(&s), cands))
}

pub fn test_case(case: &SerCase) -> TestResult {
    let spec = &case.spec;
    let mut contributions = 0;
    let mut tag_contrib = false;
    for tags in [false, true] {
        let mut p = util::predictor(spec, tags)?;
        let bytes = p.serialize_to_vec().map_err(|e| format!("serialize_to_vec: {e}"))?;
        let mut joined = bytes.clone();
        joined.extend_from_slice(&case.trailing);
        let (mut p2, rest) = unsafe { Predictor::deserialize_from_slice_unchecked(&joined) }
            .map_err(|e| format!("deserialize_from_slice_unchecked rejects self-produced bytes: {e}"))?;
        ensure_eq!(rest, &case.trailing[..], "rest after the serialised predictor (tags={tags})");
        if tags {
            p.store_tag_scores(true);
            p2.store_tag_scores(true);
        }
        // a second generation must behave the same as well
        let bytes2 = p2.serialize_to_vec().map_err(|e| format!("re-serialize: {e}"))?;
        let (mut p3, rest3) = unsafe { Predictor::deserialize_from_slice_unchecked(&bytes2) }
            .map_err(|e| format!("second-generation deserialize: {e}"))?;
        ensure!(rest3.is_empty(), "second generation leaves {} bytes", rest3.len());
        if tags {
            p3.store_tag_scores(true);
        }
        for text in &case.texts {
            let a = run_predictor(&p, text, tags)?;
            let b = run_predictor(&p2, text, tags)?;
            let c = run_predictor(&p3, text, tags)?;
            ensure_eq!(&b, &a, "deserialised predictor differs from the original on {text:?} (tags={tags})");
            ensure_eq!(&c, &a, "second-generation predictor differs from the original on {text:?} (tags={tags})");
            // tie to ground truth so that "both wrong in the same way" cannot pass
            let cs = util::chars(text);
            let (scores, st) = oracle::ref_scores(spec, &cs);
            ensure_eq!(&a.0, &scores, "scores differ from the linear model on {text:?}");
            if tags {
                let (n_tags, flat, per_token, ts) = oracle::ref_tags(spec, &cs, &a.1);
                ensure_eq!(a.2, n_tags, "n_tags on {text:?}");
                ensure_eq!(&a.3, &flat, "tags differ from the reference on {text:?}");
                let want: Cands = per_token.iter().map(|t| t.candidates.clone()).collect();
                ensure_eq!(a.4.as_ref().unwrap(), &want, "candidate scores differ from the reference on {text:?}");
                tag_contrib |= ts.contributions > 0;
            } else {
                contributions += st.contributions;
            }
        }
    }
    let trailing_zero = spec.char_ngrams.iter().any(|g| g.weights.len() <= 8 && g.weights.last() == Some(&0))
        || spec.type_ngrams.iter().any(|g| g.weights.len() <= 8 && g.weights.last() == Some(&0))
        || spec.dict.iter().any(|d| d.weights.len() <= 8 && d.weights.last() == Some(&0));
    let has_tag_entries = spec.tag_models.iter().any(|t| !t.char_ngrams.is_empty() || !t.type_ngrams.is_empty());
    Ok(Info::new(contributions > 0)
        .class(trailing_zero, "fixed-vector-with-trailing-zeros(trim path)")
        .class(has_tag_entries, "tag-weight-hash-map-entries")
        .class(tag_contrib, "tag-ngram-contribution")
        .class(!spec.type_ngrams.is_empty() && spec.type_window <= 3, "type-cache-scorer")
        .class(!spec.type_ngrams.is_empty() && spec.type_window > 3, "type-automaton-scorer")
        .class(!case.trailing.is_empty(), "trailing-bytes")
        .class(
            spec.char_ngrams.is_empty() && spec.dict.is_empty() || spec.type_ngrams.is_empty(),
            "a-scorer-absent(None on the wire)",
        ))
}

pub fn case_strategy() -> impl Strategy<Value = SerCase> {
    (
        prop_oneof![
            1 => gen::model_case(ModelCfg { allow_255: false, max_texts: 3, ..ModelCfg::BOUNDARY }),
            2 => gen::model_case(ModelCfg::TAGGED),
        ],
        proptest::collection::vec(any::<u8>(), 0..=64),
    )
        .prop_map(|(mc, trailing)| SerCase {
            spec: mc.spec,
            texts: mc.texts,
            trailing,
        })
}

pub fn run(rep: &mut Report) {
    let n = rep.n(12000, 120000);
    rep.run_prop(
        "serialize-deserialize",
        "generated models (with/without tag models; type windows on both sides of the cache limit; \
weight vectors with trailing zeros) -> Predictor with predict_tags off/on -> serialize_to_vec ++ \
0..64 trailing bytes -> deserialize_from_slice_unchecked: the rest equals the trailing bytes; the \
deserialised predictor and a second-generation one give identical scores, boundaries, tags and \
stored candidate scores on every text, and all equal RefScore/RefTags. Non-trivial = a model \
entry contributes to an existing boundary.",
        n,
        case_strategy,
        test_case,
    );
}
