//! C05 — Sentence parsers are total and leave a consistent sentence.

use proptest::prelude::*;
use serde::{Deserialize, Serialize};
use vaporetto::Sentence;
use vcommon::engine::{Info, Report, TestResult};
use vcommon::gen;
use vcommon::oracle::{self, RefParse, RefSentence, UNK};
use vcommon::{ensure, ensure_eq};

use crate::util::{self, Obs};

#[derive(Clone, Copy, Debug, PartialEq, Eq, Serialize, Deserialize)]
pub enum Fmt {
    Raw,
    Tokenized,
    Partial,
}

fn construct(fmt: Fmt, x: &str) -> Result<Sentence<'static, 'static>, String> {
    match fmt {
        Fmt::Raw => Sentence::from_raw(x.to_string()),
        Fmt::Tokenized => Sentence::from_tokenized(x),
        Fmt::Partial => Sentence::from_partial_annotation(x),
    }
    .map_err(|e| e.to_string())
}

fn update(s: &mut Sentence<'static, 'static>, fmt: Fmt, x: &str) -> Result<(), String> {
    match fmt {
        Fmt::Raw => s.update_raw(x.to_string()),
        Fmt::Tokenized => s.update_tokenized(x),
        Fmt::Partial => s.update_partial_annotation(x),
    }
    .map_err(|e| e.to_string())
}

fn reference(fmt: Fmt, x: &str) -> RefParse {
    match fmt {
        Fmt::Raw => {
            if x.is_empty() || x.contains('\0') {
                RefParse::Err
            } else {
                let chars: Vec<char> = x.chars().collect();
                let n = chars.len();
                RefParse::Ok(RefSentence {
                    chars,
                    labels: vec![UNK; n - 1],
                    tags: vec![vec![]; n],
                    n_tags: 0,
                })
            }
        }
        Fmt::Tokenized => oracle::ref_parse_tokenized(x),
        Fmt::Partial => oracle::ref_parse_partial(x),
    }
}

fn default_obs() -> Obs {
    util::observe(&Sentence::default())
}

/// Checks one successful parse result against the reference and the structural invariants.
fn check_ok(fmt: Fmt, x: &str, o: &Obs, r: &RefParse) -> Result<(), String> {
    util::check_consistent(o)?;
    if !o.scores.is_empty() {
        return Err(format!("boundary_scores not empty after parsing: {:?}", o.scores));
    }
    match r {
        RefParse::Ok(rs) => {
            if o.text != rs.text() {
                return Err(format!("{fmt:?} {x:?}: raw text {:?}, reference {:?}", o.text, rs.text()));
            }
            if o.labels != rs.labels {
                return Err(format!("{fmt:?} {x:?}: labels {:?}, reference {:?}", o.labels, rs.labels));
            }
            if o.n_tags != rs.n_tags {
                return Err(format!("{fmt:?} {x:?}: n_tags {}, reference {}", o.n_tags, rs.n_tags));
            }
            if o.tags != rs.flat_tags() {
                return Err(format!("{fmt:?} {x:?}: tags {:?}, reference {:?}", o.tags, rs.flat_tags()));
            }
        }
        RefParse::Err => {
            return Err(format!("{fmt:?} {x:?}: accepted, but the documentation says it is rejected"));
        }
        RefParse::Unspecified => {}
    }
    // writers' output re-parses (C03/C04 quantify over NUL-free tags only: a NUL inside a
    // partial-annotation tag is accepted through an undocumented gap and is outside this clause)
    if o.tags.iter().flatten().any(|t| t.contains('\0')) {
        return Ok(());
    }
    if !o.tokenized.is_empty() {
        Sentence::from_tokenized(&o.tokenized)
            .map_err(|e| format!("tokenized writer output {:?} does not re-parse: {e}", o.tokenized))?;
    }
    Sentence::from_partial_annotation(&o.partial)
        .map_err(|e| format!("partial writer output {:?} does not re-parse: {e}", o.partial))?;
    Ok(())
}

pub fn test_string(x: &String) -> TestResult {
    let mut info = Info::default();
    let dflt = default_obs();
    for fmt in [Fmt::Raw, Fmt::Tokenized, Fmt::Partial] {
        let r = reference(fmt, x);
        let fresh = construct(fmt, x);
        let fresh_obs = match &fresh {
            Ok(s) => {
                let o = util::observe(s);
                check_ok(fmt, x, &o, &r)?;
                Some(o)
            }
            Err(e) => {
                ensure!(
                    !matches!(r, RefParse::Ok(_)),
                    "{fmt:?} {x:?}: rejected ({e}), but the documentation says it is accepted"
                );
                None
            }
        };
        // the in-place update from two different previous states gives the same observation
        let mut a = Sentence::default();
        let mut b = Sentence::from_tokenized("x/T1/T2 yz/U").map_err(|e| e.to_string())?;
        let mut c = Sentence::from_partial_annotation("p/Q-q r|s/W").map_err(|e| e.to_string())?;
        for (name, s) in [("default", &mut a), ("tokenized", &mut b), ("partial", &mut c)] {
            let res = update(s, fmt, x);
            let o = util::observe(s);
            match (&fresh_obs, res) {
                (Some(f), Ok(())) => {
                    ensure_eq!(&o, f, "{fmt:?} {x:?}: update on a {name} sentence differs from the constructor")
                }
                (None, Err(_)) => {
                    ensure_eq!(&o, &dflt, "{fmt:?} {x:?}: failed update on a {name} sentence does not leave the default sentence")
                }
                (f, res) => {
                    return Err(format!(
                        "{fmt:?} {x:?}: constructor ok={} but update on a {name} sentence ok={}",
                        f.is_some(),
                        res.is_ok()
                    )
                    .into())
                }
            }
        }
        let ok = fresh_obs.is_some();
        info = info
            .class(ok && fmt == Fmt::Raw, "raw-accepted")
            .class(!ok && fmt == Fmt::Raw, "raw-rejected")
            .class(ok && fmt == Fmt::Tokenized, "tokenized-accepted")
            .class(!ok && fmt == Fmt::Tokenized, "tokenized-rejected")
            .class(ok && fmt == Fmt::Partial, "partial-accepted")
            .class(!ok && fmt == Fmt::Partial, "partial-rejected")
            .class(matches!(r, RefParse::Unspecified), "acceptance-unspecified");
        if ok && fmt != Fmt::Raw && x.contains('\\') && x.contains('/') {
            info.nontrivial = true;
        }
    }
    Ok(info)
}

#[derive(Clone, Debug, Serialize, Deserialize)]
pub enum Op {
    Update(Fmt, String),
    ResetTags(usize),
    /// update with the CURRENT raw text again, written in the given format (labels/tags chosen
    /// by the salt): the same text twice in a row is what a corpus with repeated lines, or a
    /// caller resetting a gold sentence to its unannotated form, produces
    Reparse(Fmt, u16),
    /// what a caller does between two updates: predict with one of two predictors built from
    /// resources/model.bin (0: boundaries only, 1: + fill_tags with stored tag scores). The
    /// following update must still give exactly what the constructor gives (no scores, no tags
    /// of the prediction).
    Predict(u8),
    /// overwrite one boundary label through boundaries_mut()
    Edit(u16, u8),
    /// fill_tags() without a prediction since the last update: the update (successful or
    /// failed) has detached the predictor, so nothing may change
    FillTags,
}

fn predictors() -> &'static [vaporetto::Predictor] {
    static P: std::sync::OnceLock<Vec<vaporetto::Predictor>> = std::sync::OnceLock::new();
    P.get_or_init(|| {
        let bytes = std::fs::read("/repo/resources/model.bin").expect("resources/model.bin");
        [false, true]
            .into_iter()
            .map(|tags| {
                let (m, _) = vaporetto::Model::read_slice(&bytes).expect("golden model");
                let mut p = vaporetto::Predictor::new(m, tags).expect("golden predictor");
                p.store_tag_scores(tags);
                p
            })
            .collect()
    })
}

#[derive(Clone, Debug, Serialize, Deserialize)]
pub struct History {
    pub start: Option<(Fmt, String)>,
    pub ops: Vec<Op>,
}

pub fn test_history(h: &History) -> TestResult {
    let dflt = default_obs();
    let mut s: Sentence<'static, 'static> = match &h.start {
        Some((fmt, x)) => match construct(*fmt, x) {
            Ok(s) => s,
            Err(_) => Sentence::default(),
        },
        None => Sentence::default(),
    };
    let mut prev_predicted = false;
    // Some(i): predictor i was the last thing that touched the sentence's predictor link
    let mut linked: Option<u8> = None;
    let mut prev = util::observe(&s);
    let mut prev_failed = false;
    let mut nontrivial = false;
    let mut info = Info::default();
    for (k, op) in h.ops.iter().enumerate() {
        // resolve a Reparse into a concrete Update of the current raw text
        let resolved;
        let op = match op {
            Op::Reparse(fmt, salt) => {
                let chars: Vec<char> = s.as_raw_text().chars().collect();
                let n = chars.len();
                let salt = *salt as usize;
                let rs = RefSentence {
                    labels: (0..n - 1).map(|i| ((i * 7 + salt) % 3) as u8).map(|l| if *fmt == Fmt::Tokenized && l == UNK { 1 } else { l }).collect(),
                    tags: (0..n).map(|i| if (i + salt) % 2 == 0 { vec![Some(format!("T{}", (i + salt) % 3))] } else { vec![] }).collect(),
                    n_tags: 1,
                    chars,
                };
                let x = match fmt {
                    Fmt::Raw => rs.text(),
                    Fmt::Tokenized => oracle::ref_write_tokenized(&rs),
                    Fmt::Partial => oracle::ref_write_partial(&rs),
                };
                resolved = Op::Update(*fmt, x);
                &resolved
            }
            other => other,
        };
        match op {
            Op::Reparse(..) => unreachable!(),
            Op::Update(fmt, x) => {
                let res = update(&mut s, *fmt, x);
                let o = util::observe(&s);
                util::check_consistent(&o).map_err(|e| format!("after op {k} {op:?}: {e}"))?;
                match res {
                    Ok(()) => {
                        let fresh = construct(*fmt, x).map_err(|e| {
                            format!("op {k} {op:?}: update succeeded but the constructor fails: {e}")
                        })?;
                        let f = util::observe(&fresh);
                        ensure_eq!(&o, &f, "op {k} {op:?}: state depends on the history");
                        check_ok(*fmt, x, &o, &reference(*fmt, x))?;
                        if prev.n_tags > 0 || prev_failed || prev_predicted {
                            nontrivial = true;
                        }
                        info = info
                            .class(prev_predicted, "ok-update-after-prediction")
                            .class(prev.n_tags > 0, "ok-update-after-tagged-state")
                            .class(prev_failed, "ok-update-after-failed-update");
                        prev_failed = false;
                    }
                    Err(_) => {
                        ensure!(
                            construct(*fmt, x).is_err(),
                            "op {k} {op:?}: update fails but the constructor succeeds"
                        );
                        ensure_eq!(&o, &dflt, "op {k} {op:?}: failed update does not leave the default sentence");
                        prev_failed = true;
                        info = info.class(true, "failed-update");
                    }
                }
                prev = o;
                prev_predicted = false;
                linked = None;
            }
            Op::FillTags => {
                match linked {
                    // documented: fill_tags panics if the linked predictor cannot predict tags
                    Some(0) => {}
                    Some(_) => {
                        s.fill_tags();
                        let o = util::observe(&s);
                        util::check_consistent(&o).map_err(|e| format!("after op {k} {op:?}: {e}"))?;
                        prev = o;
                    }
                    None => {
                        s.fill_tags();
                        let o = util::observe(&s);
                        ensure_eq!(&o, &prev, "op {k}: fill_tags changed a sentence that has not been predicted since its last update");
                        info = info.class(true, "fill_tags-without-prediction");
                    }
                }
            }
            Op::Predict(i) => {
                linked = Some(*i % 2);
                let p = &predictors()[*i as usize % 2];
                p.predict(&mut s);
                if *i % 2 == 1 {
                    s.fill_tags();
                }
                let o = util::observe(&s);
                util::check_consistent(&o).map_err(|e| format!("after op {k} {op:?}: {e}"))?;
                ensure_eq!(&o.text, &prev.text, "op {k}: predict changed the text");
                prev = o;
                prev_predicted = true;
            }
            Op::Edit(sel, l) => {
                let bs = s.boundaries_mut();
                if !bs.is_empty() {
                    let i = gen::pick(*sel, bs.len());
                    bs[i] = oracle::boundary_of(*l);
                }
                let o = util::observe(&s);
                util::check_consistent(&o).map_err(|e| format!("after op {k} {op:?}: {e}"))?;
                prev = o;
            }
            Op::ResetTags(n) => {
                s.reset_tags(*n);
                let o = util::observe(&s);
                util::check_consistent(&o).map_err(|e| format!("after op {k} {op:?}: {e}"))?;
                ensure_eq!(o.n_tags, *n, "op {k}: n_tags after reset_tags");
                ensure!(o.tags.iter().all(|t| t.is_none()), "op {k}: tags present after reset_tags");
                ensure_eq!(&o.text, &prev.text, "op {k}: reset_tags changed the text");
                ensure_eq!(&o.labels, &prev.labels, "op {k}: reset_tags changed the labels");
                ensure_eq!(&o.char_types, &prev.char_types, "op {k}: reset_tags changed the types");
                prev = o;
            }
        }
    }
    info.nontrivial = nontrivial;
    Ok(info)
}

pub fn string_strategy(max_len: usize) -> impl Strategy<Value = String> {
    prop_oneof![
        2 => gen::annotated_sentence(max_len, 2, false).prop_map(|r| oracle::ref_write_tokenized(&r)),
        2 => gen::annotated_sentence(max_len, 3, true).prop_map(|r| oracle::ref_write_partial(&r)),
        2 => (gen::annotated_sentence(max_len, 2, false), proptest::collection::vec((any::<u16>(), any::<u16>(), any::<u8>()), 1..=3))
            .prop_map(|(r, m)| gen::mutate(oracle::ref_write_tokenized(&r), &m)),
        2 => (gen::annotated_sentence(max_len, 3, true), proptest::collection::vec((any::<u16>(), any::<u16>(), any::<u8>()), 1..=3))
            .prop_map(|(r, m)| gen::mutate(oracle::ref_write_partial(&r), &m)),
        3 => gen::dense_string(max_len, true),
        1 => any::<String>(),
        1 => Just(String::new()),
    ]
}

fn fmt_strategy() -> impl Strategy<Value = Fmt> {
    prop_oneof![Just(Fmt::Raw), Just(Fmt::Tokenized), Just(Fmt::Partial)]
}

pub fn history_strategy() -> impl Strategy<Value = History> {
    (
        prop::option::of((fmt_strategy(), string_strategy(8))),
        proptest::collection::vec(
            prop_oneof![
                5 => (fmt_strategy(), string_strategy(8)).prop_map(|(f, x)| Op::Update(f, x)),
                1 => (0usize..=4).prop_map(Op::ResetTags),
                2 => (fmt_strategy(), any::<u16>()).prop_map(|(f, x)| Op::Reparse(f, x)),
                2 => (0u8..2).prop_map(Op::Predict),
                1 => (any::<u16>(), 0u8..3).prop_map(|(s, l)| Op::Edit(s, l)),
                2 => Just(Op::FillTags),
            ],
            1..=8,
        ),
    )
        .prop_map(|(start, ops)| History { start, ops })
}

fn scale_strings() -> Vec<String> {
    let mut v = vec![];
    for (k, r) in gen::scale_sentences(3, true).into_iter().enumerate() {
        let mut two = r.clone();
        for l in two.labels.iter_mut() {
            if *l == UNK {
                *l = 1;
            }
        }
        let t = oracle::ref_write_tokenized(&two);
        let p = oracle::ref_write_partial(&r);
        // the valid forms, and the same strings damaged at the very end / the very start
        match k % 3 {
            0 => v.push(format!("{t}\0")),
            1 => v.push(format!("{p} ")),
            _ => v.push(format!(" {t}")),
        }
        v.push(r.text());
        v.push(t);
        v.push(p);
    }
    v
}

pub fn run(rep: &mut Report) {
    rep.run_enum(
        "scale-strings",
        "the raw, tokenized and partial-annotation forms of the deterministic scale sentences \
(65,535 .. 131,080 characters, 70,000-character token / tag, 255..300 tag columns) and copies \
damaged at the first / last character: same clauses as strings",
        false,
        scale_strings().into_iter(),
        |x: &String| test_string(x).map(|mut i| { i.nontrivial = true; i }),
    );
    let n = rep.n(200000, 10000000);
    rep.run_prop(
        "strings",
        "strings from seven classes (reference-written tokenized / partial strings, point mutations \
of both incl. NUL injection, delimiter-dense strings over {a,あ,𠀋,space,/,\\,-,|,NUL}, arbitrary \
Unicode, empty) x the three constructors and the three update operations from three previous \
states: no panic; result equals the reference parser where the documentation determines it; \
failed update leaves the default sentence; all accessors/writers/iterator run and the writers' \
output re-parses. Non-trivial = accepted annotated string with >= 1 escape and >= 1 tag.",
        n,
        || string_strategy(14),
        test_string,
    );
    let n = rep.n(60000, 3000000);
    rep.run_prop(
        "histories",
        "sequences of 1-8 update_raw/update_tokenized/update_partial_annotation/reset_tags(k<=4) \
calls on one sentence (started from default or a constructor), interleaved with what callers do \
between updates (predict / predict + fill_tags with resources/model.bin, boundary edits): after every call the observation \
is consistent, equals a freshly constructed sentence for the same input (or the default sentence \
after a failure). Non-trivial = an Ok update follows a state with n_tags > 0 or a failed update.",
        n,
        history_strategy,
        test_history,
    );
    rep.assume("acceptance of a lone trailing backslash and of NUL inside a partial-annotation tag is not documented; only totality and consistency are checked there");
}
