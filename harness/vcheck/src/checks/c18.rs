//! C18 — No input drives the unchecked code out of bounds.
//!
//! The deciding builds are made by the `check` script: this same binary compiled on nightly with
//! `-Zsanitizer=address -C debug-assertions=on` (every `debug_assert!` guarding a
//! `get_unchecked`, the `is_char_boundary` assertions on automaton match ends, and the standard
//! library's checked unsafe preconditions become active). A violated precondition aborts the
//! process; the script supervises the run, finds the case that was executing (VERIF_TRACE_CASES)
//! and re-executes it to confirm.

use proptest::prelude::*;
use vcommon::engine::Report;
use vcommon::gen::{self, ModelCfg};
use vcommon::oracle::UNK;

use crate::checks::{c01, c03, c04, c06, c08, c13, c14, c15};

pub fn build_kind() -> &'static str {
    if cfg!(debug_assertions) {
        "debug-assertions ON (unchecked-operation preconditions are checked)"
    } else {
        "debug-assertions OFF (plain release build: only safe panics are visible)"
    }
}

pub fn run(rep: &mut Report) {
    let k = |q: u64, t: u64| (q, t);
    let rule = "the generators and oracles of C01/C06/C08/C14/C15/C03/C04 re-executed in a build \
with AddressSanitizer and debug assertions (checked get_unchecked / is_char_boundary / UTF-8 \
preconditions): any abort, sanitizer report or panic is a violation. Non-trivial as in the \
owning check (a model entry contributes / tag n-gram contribution / history leaves state / \
filter changes something).";
    let n = rep.n(6000, 150000);
    rep.run_prop("sweep-filters", rule, n, || c15::case_strategy(0u8..9), c15::test_case);
    let n = rep.n(6000, 150000);
    rep.run_prop(
        "sweep-tokenized-writer",
        rule,
        n,
        || {
            gen::annotated_sentence(24, 2, false).prop_map(|mut r| {
                for l in r.labels.iter_mut() {
                    if *l == UNK {
                        *l = 0;
                    }
                }
                r
            })
        },
        c03::roundtrip,
    );
    let n = rep.n(4000, 100000);
    rep.run_prop("sweep-partial-writer", rule, n, || gen::annotated_sentence(24, 3, true), c04::roundtrip);
    let (q, t) = k(2500, 60000);
    let n = rep.n(q, t);
    rep.run_prop("sweep-predict", rule, n, || gen::model_case(ModelCfg::BOUNDARY), c01::test_case);
    let n = rep.n(2500, 60000);
    rep.run_prop("sweep-tags", rule, n, || c06::case_strategy(ModelCfg::TAGGED), c06::test_case);
    let n = rep.n(1500, 40000);
    rep.run_prop("sweep-reuse", rule, n, c08::case_strategy, c08::test_case);
    let n = rep.n(1000, 30000);
    rep.run_prop("sweep-serialize", rule, n, c14::case_strategy, c14::test_case);
    rep.run_enum(
        "sweep-long-texts",
        "texts of 65,535 .. 131,080 characters through predict + fill_tags with a tagged model \
(the long-texts cases of C06) and the 70,000-character / 70,000-pattern scale cases of C01, in \
this sanitizer build",
        false,
        c06::long_text_cases().into_iter(),
        |c: &c06::TagCase| c06::test_case(c).map(|mut i| { i.nontrivial = true; i }),
    );
    rep.run_enum(
        "sweep-scale-sentences",
        "the deterministic scale sentences of C03 / C04 (65,535 .. 131,080 characters, a token of \
70,000 characters, 255 .. 300 tag columns, a tag of 70,000 characters) through both writers and \
parsers in this sanitizer build; what a writer hands back must be valid UTF-8 (the round trip \
compares it with the reference)",
        false,
        gen::scale_sentences(2, false).into_iter().map(|r| (false, r)).chain(gen::scale_sentences(3, true).into_iter().map(|r| (true, r))),
        |c: &(bool, vcommon::oracle::RefSentence)| if c.0 { c04::roundtrip(&c.1) } else { c03::roundtrip(&c.1) }.map(|mut i| { i.nontrivial = true; i }),
    );
    rep.run_enum(
        "sweep-scale",
        "the deterministic scale cases of C01 (70,000-character text, 70,000 n-grams, 5,000-character \
word, window 255) in this sanitizer build",
        false,
        (0u8..4).map(|kind| c01::ScaleCase { kind }),
        |c: &c01::ScaleCase| c01::test_case(&c01::scale_model(c)).map(|mut i| { i.nontrivial = true; i }),
    );
    // the other feature configurations: worker processes compiled with debug assertions
    let names = c13::checked_worker_names();
    if names.is_empty() {
        eprintln!("no checked workers found; run tools/build_workers.sh quick checked");
        std::process::exit(2);
    }
    let n = rep.n(3000, 40000);
    rep.run_prop(
        "feature-configurations",
        &format!(
            "generated tagged models x texts sent to {} worker processes, one per vaporetto feature \
subset, each compiled with debug assertions (vaporetto's debug_assert!s in front of its unchecked \
operations and the standard library's checks of unsafe preconditions): predict, fill_tags, \
serialise + reload the predictor and repeat, both writers, token iteration and five post-filters. \
A worker that dies or reports a panic is a violation (results are C13's question). Non-trivial = \
multi-byte text and a model with tag models. Builds: {}",
            names.len(),
            names.join(" | ")
        ),
        n,
        || c06::case_strategy(ModelCfg::TAGGED),
        c13::test_case_checked,
    );
    rep.extra("build", serde_json::json!(build_kind()));
    rep.extra("checked_feature_builds", serde_json::json!(names));
    rep.assume("the AddressSanitizer sweeps run for the default feature set; the other feature subsets (quick 7, thorough 48) run in worker processes with debug assertions but without AddressSanitizer");
    if !cfg!(debug_assertions) {
        rep.assume("THIS RUN USED A PLAIN RELEASE BUILD: unchecked preconditions were not checked (run through ./check C18, which builds the sanitizer binary)");
    }
}
