//! C18 — No input drives the unchecked code out of bounds.
//!
//! The deciding builds are made by the `check` script: this same binary compiled on nightly with
//! `-Zsanitizer=address -C debug-assertions=on` (every `debug_assert!` guarding a
//! `get_unchecked`, the `is_char_boundary` assertions on automaton match ends, and the standard
//! library's checked unsafe preconditions become active). A violated precondition aborts the
//! process; the script supervises the run, finds the case that was executing (VERIF_TRACE_CASES)
//! and re-executes it to confirm.

use proptest::prelude::*;
use vcommon::engine::Report;
use vcommon::gen::{self, ModelCfg};
use vcommon::oracle::UNK;

use crate::checks::{c01, c03, c04, c06, c08, c14, c15};

pub fn build_kind() -> &'static str {
    if cfg!(debug_assertions) {
        "debug-assertions ON (unchecked-operation preconditions are checked)"
    } else {
        "debug-assertions OFF (plain release build: only safe panics are visible)"
    }
}

pub fn run(rep: &mut Report) {
    let k = |q: u64, t: u64| (q, t);
    let rule = "the generators and oracles of C01/C06/C08/C14/C15/C03/C04 re-executed in a build \
with AddressSanitizer and debug assertions (checked get_unchecked / is_char_boundary / UTF-8 \
preconditions): any abort, sanitizer report or panic is a violation. Non-trivial as in the \
owning check (a model entry contributes / tag n-gram contribution / history leaves state / \
filter changes something).";
    let n = rep.n(6000, 150000);
    rep.run_prop("sweep-filters", rule, n, || c15::case_strategy(0u8..9), c15::test_case);
    let n = rep.n(6000, 150000);
    rep.run_prop(
        "sweep-tokenized-writer",
        rule,
        n,
        || {
            gen::annotated_sentence(24, 2, false).prop_map(|mut r| {
                for l in r.labels.iter_mut() {
                    if *l == UNK {
                        *l = 0;
                    }
                }
                r
            })
        },
        c03::roundtrip,
    );
    let n = rep.n(4000, 100000);
    rep.run_prop("sweep-partial-writer", rule, n, || gen::annotated_sentence(24, 3, true), c04::roundtrip);
    let (q, t) = k(2500, 60000);
    let n = rep.n(q, t);
    rep.run_prop("sweep-predict", rule, n, || gen::model_case(ModelCfg::BOUNDARY), c01::test_case);
    let n = rep.n(2500, 60000);
    rep.run_prop("sweep-tags", rule, n, || c06::case_strategy(ModelCfg::TAGGED), c06::test_case);
    let n = rep.n(1500, 40000);
    rep.run_prop("sweep-reuse", rule, n, c08::case_strategy, c08::test_case);
    let n = rep.n(1000, 30000);
    rep.run_prop("sweep-serialize", rule, n, c14::case_strategy, c14::test_case);
    rep.extra("build", serde_json::json!(build_kind()));
    rep.assume("ASan + checked-precondition sweeps run for the default feature set; C13 covers all 48 feature subsets for results but without sanitizers");
    if !cfg!(debug_assertions) {
        rep.assume("THIS RUN USED A PLAIN RELEASE BUILD: unchecked preconditions were not checked (run through ./check C18, which builds the sanitizer binary)");
    }
}
