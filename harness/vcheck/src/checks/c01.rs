//! C01 — Boundary scores and decisions equal the pointwise linear model.

use vaporetto::Sentence;
use vcommon::engine::{Info, Report, TestResult};
use vcommon::gen::{model_case, ModelCase, ModelCfg};
use vcommon::oracle::{self, NB, UNK, WB};
use vcommon::{ensure, ensure_eq};

use crate::util;

const RULE: &str = "generated (model spec, texts) pairs; model built via mirror encoding + \
Model::read; scores compared element-wise with the brute-force reference (RefScore), decisions \
with `score > 0`. Non-trivial = at least one model entry occurs in a text and contributes to an \
existing boundary; distinct by digest of the concrete case.";

pub fn test_case(case: &ModelCase) -> TestResult {
    let spec = &case.spec;
    let mut contributions = 0;
    let mut info = Info::default();
    let mut zero_score = false;
    let mut stats_all = oracle::ScoreStats::default();
    // a different model over the same patterns, used to leave scores / automaton states of an
    // earlier prediction on the sentence before the prediction under test
    let mut alt = spec.clone();
    alt.bias = alt.bias.wrapping_add(1000);
    for g in alt.char_ngrams.iter_mut() {
        g.weights.iter_mut().for_each(|w| *w = -*w / 2 + 3);
    }
    alt.dict.truncate(spec.dict.len() / 2);
    let mut repredicted = false;
    let mut reannotated = false;
    for predict_tags in [false, true] {
        let p = util::predictor(spec, predict_tags)?;
        let p_alt = util::predictor(&alt, !predict_tags)?;
        for (ti, text) in case.texts.iter().enumerate() {
            let cs = util::chars(text);
            let (expected, st) = oracle::ref_scores(spec, &cs);
            let mut s = if ti % 2 == 1 {
                Sentence::from_partial_annotation(&util::partial_annotation_of(text, ti))
                    .map_err(|e| format!("from_partial_annotation: {e}"))?
            } else {
                Sentence::from_raw(text.clone()).map_err(|e| format!("from_raw: {e}"))?
            };
            if ti % 3 == 2 || (ti == 0 && case.texts.len() == 1 && cs.len() % 2 == 0) {
                // re-prediction without an update in between: the earlier result must be
                // overwritten completely
                p_alt.predict(&mut s);
                repredicted = true;
            }
            if ti % 3 == 1 || (ti == 0 && case.texts.len() == 1 && cs.len() % 2 == 1) {
                // the same predictor has predicted this sentence before and its decisions were
                // overwritten by hand since ("overwriting any earlier annotation")
                p.predict(&mut s);
                for (i, b) in s.boundaries_mut().iter_mut().enumerate() {
                    *b = oracle::boundary_of(((i + ti) % 3) as u8);
                }
                reannotated = true;
            }
            p.predict(&mut s);
            let got = util::scores_i64(&s);
            ensure_eq!(
                got.len(),
                cs.len() - 1,
                "number of scores (text {text:?}, predict_tags={predict_tags})"
            );
            ensure_eq!(
                got,
                expected,
                "boundary scores differ from the linear model (text {text:?}, predict_tags={predict_tags})"
            );
            let labels = util::labels(&s);
            for (i, (&l, &e)) in labels.iter().zip(&expected).enumerate() {
                ensure!(l != UNK, "boundary {i} of {text:?} left unknown after predict");
                let want = if e > 0 { WB } else { NB };
                ensure!(
                    l == want,
                    "boundary {i} of {text:?}: score {e} but label {l} (predict_tags={predict_tags})"
                );
                if e == 0 {
                    zero_score = true;
                }
            }
            ensure_eq!(s.as_raw_text(), text.as_str(), "text changed by predict");
            if !predict_tags {
                contributions += st.contributions;
                stats_all.left_overhang |= st.left_overhang;
                stats_all.right_overhang |= st.right_overhang;
                stats_all.suffix_chain_match |= st.suffix_chain_match;
                stats_all.dict_equals_ngram_match |= st.dict_equals_ngram_match;
            }
        }
    }
    info.nontrivial = contributions > 0;
    let variable = spec.char_ngrams.iter().any(|g| g.weights.len() > 8)
        || spec.type_ngrams.iter().any(|g| g.weights.len() > 8)
        || spec.dict.iter().any(|d| d.weights.len() > 8);
    let info = info
        .class(stats_all.suffix_chain_match, "suffix-chain-match")
        .class(stats_all.left_overhang, "left-edge-overhang")
        .class(stats_all.right_overhang, "right-edge-overhang")
        .class(stats_all.dict_equals_ngram_match, "dict-word-equals-ngram")
        .class(variable, "variable-layout(>8 weights)")
        .class(
            !spec.type_ngrams.is_empty() && spec.type_window <= 3,
            "type-cache-path(w<=3)",
        )
        .class(
            !spec.type_ngrams.is_empty() && spec.type_window > 3,
            "type-automaton-path(w>3)",
        )
        .class(
            case.texts.iter().any(|t| t.chars().any(|c| c.len_utf8() > 1)),
            "multi-byte-text",
        )
        .class(
            case.texts.iter().any(|t| t.chars().any(|c| c.len_utf8() == 4)),
            "4-byte-char",
        )
        .class(zero_score, "score-exactly-0")
        .class(case.texts.iter().any(|t| t.chars().count() == 1), "one-char-text")
        .class(
            spec.char_window == 255 || spec.type_window == 255,
            "window-255",
        )
        .class(!spec.tag_models.is_empty(), "has-tag-models(BoundaryTag scorers)")
        .class(!spec.dict.is_empty(), "has-dictionary")
        .class(repredicted, "re-predicted-after-another-predictor")
        .class(reannotated, "re-predicted-by-the-same-predictor-after-hand-edits");
    Ok(info)
}

/// Deterministic cases at a scale random generation does not reach (long texts, long words,
/// tens of thousands of patterns, window 255 with long n-grams).
#[derive(Clone, Debug, serde::Serialize, serde::Deserialize)]
pub struct ScaleCase {
    pub kind: u8,
}

pub fn scale_model(c: &ScaleCase) -> ModelCase {
    use vcommon::mirror::{ModelSpec, NgramSpec, WordSpec};
    let ch = |i: usize| char::from_u32(0x4E00 + (i % 3000) as u32).unwrap();
    let mut spec = ModelSpec { char_window: 3, type_window: 3, bias: -2, ..ModelSpec::default() };
    let mut texts = vec![];
    match c.kind {
        0 => {
            // very long text over a tiny alphabet, overlapping and suffix-related patterns
            for (g, w) in [("ab", vec![1, -2, 3, -4, 5]), ("b", vec![2, 0, -1, 0, 1, 7]), ("aab", vec![9, -9, 4, 1]), ("火", vec![1, 1, 1, 1, 1, 1])] {
                spec.char_ngrams.push(NgramSpec { ngram: g.into(), weights: w });
            }
            spec.type_ngrams.push(NgramSpec { ngram: vec![2, 2], weights: vec![3, -1, 2, 0, 5] });
            spec.dict.push(WordSpec { word: "aba".into(), weights: vec![10, -10, -10, 10], comment: String::new() });
            texts.push((0..70_000).map(|i| ['a', 'b', 'a', 'a', '火', 'b'][(i * 7 + i / 5) % 6]).collect());
        }
        1 => {
            // 70,000 two-character n-grams (> 65,535 patterns)
            spec.char_window = 2;
            for k in 0..70_000usize {
                spec.char_ngrams.push(NgramSpec {
                    ngram: [ch(k / 300), ch(k % 300)].iter().collect(),
                    weights: vec![(k % 11) as i32 - 5, (k % 7) as i32 - 3, (k % 5) as i32 - 2],
                });
            }
            for t in 0..6 {
                texts.push((0..60).map(|i| ch((i * (t + 1) * 17 + t) % 300)).collect());
            }
        }
        2 => {
            // a 5,000-character dictionary word (one weight per boundary) plus its suffix
            let word: String = (0..5000).map(|i| ch(i % 97)).collect();
            let weights: Vec<i32> = (0..=5000).map(|i| (i % 13) as i32 - 6).collect();
            let suffix: String = word.chars().skip(4990).collect();
            spec.dict.push(WordSpec { word: word.clone(), weights, comment: String::new() });
            spec.dict.push(WordSpec { word: suffix, weights: (0..=10).map(|i| i * 3 - 10).collect(), comment: String::new() });
            texts.push(format!("{}{}{}", "前", word, "後"));
            texts.push(word.chars().take(4999).collect()); // one character short: no match
        }
        4 | 5 | 6 => {
            // n-grams of 255 / 256 / 258 / 2W characters (and types) under windows of 128 and more
            let (cw, tw, n) = [(128u8, 130u8, 256usize), (200, 129, 258), (255, 255, 510)][c.kind as usize - 4];
            spec.char_window = cw;
            spec.type_window = tw;
            let long: String = (0..n.min(2 * cw as usize)).map(|i| ch(i % 211)).collect();
            let l = long.chars().count();
            spec.char_ngrams.push(NgramSpec { ngram: long.clone(), weights: (0..2 * cw as usize - l + 1).map(|i| (i % 7) as i32 * 100 + 1000).collect() });
            let short: String = long.chars().take(255).collect();
            spec.char_ngrams.push(NgramSpec { ngram: short, weights: (0..2 * cw as usize - 255 + 1).map(|i| (i % 5) as i32 - 2).collect() });
            spec.char_ngrams.push(NgramSpec { ngram: ch(3).to_string(), weights: (0..2 * cw as usize).map(|i| (i % 3) as i32 - 1).collect() });
            let tl = n.min(2 * tw as usize);
            spec.type_ngrams.push(NgramSpec { ngram: vec![5; tl], weights: (0..2 * tw as usize - tl + 1).map(|i| (i % 9) as i32 * 10 + 500).collect() });
            spec.type_ngrams.push(NgramSpec { ngram: vec![5, 5], weights: (0..2 * tw as usize - 1).map(|i| (i % 4) as i32 - 1).collect() });
            texts.push(format!("前の{long}後ろ"));
            texts.push(format!("{long}{long}"));
            texts.push(long.chars().take(l - 1).collect());
        }
        7 => {
            // 70,000 type n-grams of seven types (more than 65,536 patterns in the type automaton,
            // type window 4: the scorer that is not served by the cache)
            spec.char_window = 1;
            spec.type_window = 4;
            let types_of = |k: usize| -> Vec<u8> { (0..7).rev().map(|d| ((k / 6usize.pow(d)) % 6) as u8 + 1).collect() };
            for k in 0..70_000usize {
                spec.type_ngrams.push(NgramSpec { ngram: types_of(k), weights: vec![(k % 7) as i32 - 3, (k % 5) as i32 - 2] });
            }
            let ch = |t: u8| ['1', 'a', 'あ', 'ア', '火', '。'][t as usize - 1];
            for k in [0usize, 12_345, 65_535, 65_536, 69_999] {
                let mut t: String = types_of(k).into_iter().map(ch).collect();
                t.push_str("火a1");
                texts.push(t);
            }
            texts.push("11a11a1aあア火。1a1a11".into());
        }
        8 => {
            // a dictionary word of 32,767 characters (the longest a model may hold, 32,768
            // weights) with entries that are its suffixes: a word and a character n-gram
            let n = 32_767usize;
            let word: String = (0..n).map(|i| ch(i % 97)).collect();
            let weights: Vec<i32> = (0..=n).map(|i| (i % 13) as i32 - 6).collect();
            let suffix: String = word.chars().skip(n - 10).collect();
            let last: String = word.chars().skip(n - 1).collect();
            spec.dict.push(WordSpec { word: word.clone(), weights, comment: String::new() });
            spec.dict.push(WordSpec { word: suffix.clone(), weights: (0..=10).map(|i| i * 3 - 10).collect(), comment: String::new() });
            spec.char_ngrams.push(NgramSpec { ngram: last, weights: vec![1, -2, 3, -4, 5, -6] });
            texts.push(format!("{}{}{}", "前", word, "後"));
            texts.push(format!("前{suffix}後{suffix}"));
            texts.push(word.chars().skip(1).collect()); // one character short: no match
        }
        _ => {
            // window 255 with 12-character n-grams and a text longer than the window
            spec.char_window = 255;
            spec.type_window = 255;
            let g: String = "abcabcabcabc".into();
            spec.char_ngrams.push(NgramSpec { ngram: g, weights: (0..499).map(|i| (i % 17) - 8).collect() });
            spec.char_ngrams.push(NgramSpec { ngram: "c".into(), weights: (0..510).map(|i| (i % 5) - 2).collect() });
            spec.type_ngrams.push(NgramSpec { ngram: vec![2; 10], weights: (0..501).map(|i| (i % 3) - 1).collect() });
            texts.push("abc".repeat(250));
            texts.push("abcabcabcabc".into());
        }
    }
    ModelCase { spec, texts }
}

pub fn run(rep: &mut Report) {
    rep.run_enum(
        "scale-cases",
        "deterministic cases at a scale the random generator does not reach: a 70,000-character \
text with overlapping/suffix patterns, 70,000 n-grams, a 5,000-character dictionary word with a \
suffix word, window 255 with 12-character n-grams on a 750-character text, n-grams of 255 .. 510 \
characters and types under windows of 128 .. 255, 70,000 type n-grams under type window 4, a \
32,767-character dictionary word with suffix entries; same oracle",
        false,
        [0u8, 1, 2, 3, 4, 5, 6, 7, 8].into_iter().map(|kind| ScaleCase { kind }),
        |c: &ScaleCase| test_case(&scale_model(c)).map(|mut i| { i.nontrivial = true; i }),
    );
    let n = rep.n(15000, 750000);
    rep.run_prop("model-text", RULE, n, || model_case(ModelCfg::BOUNDARY), test_case);
    let n = rep.n(8000, 400000);
    rep.run_prop(
        "model-text-tagmodels",
        "same oracle on models that also carry tag models, so that predict_tags=true routes \
through the tag-aware scorers",
        n,
        || model_case(ModelCfg::TAGGED),
        test_case,
    );
    rep.assume("character types are defined by the public CharacterType::get_type");
    rep.assume("window 255 is generated rarely and only with small models (reference is quadratic)");
}
