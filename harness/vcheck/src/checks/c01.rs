//! C01 — Boundary scores and decisions equal the pointwise linear model.

use vaporetto::Sentence;
use vcommon::engine::{Info, Report, TestResult};
use vcommon::gen::{model_case, ModelCase, ModelCfg};
use vcommon::oracle::{self, NB, UNK, WB};
use vcommon::{ensure, ensure_eq};

use crate::util;

const RULE: &str = "generated (model spec, texts) pairs; model built via mirror encoding + \
Model::read; scores compared element-wise with the brute-force reference (RefScore), decisions \
with `score > 0`. Non-trivial = at least one model entry occurs in a text and contributes to an \
existing boundary; distinct by digest of the concrete case.";

pub fn test_case(case: &ModelCase) -> TestResult {
    let spec = &case.spec;
    let mut contributions = 0;
    let mut info = Info::default();
    let mut zero_score = false;
    let mut stats_all = oracle::ScoreStats::default();
    // a different model over the same patterns, used to leave scores / automaton states of an
    // earlier prediction on the sentence before the prediction under test
    let mut alt = spec.clone();
    alt.bias = alt.bias.wrapping_add(1000);
    for g in alt.char_ngrams.iter_mut() {
        g.weights.iter_mut().for_each(|w| *w = -*w / 2 + 3);
    }
    alt.dict.truncate(spec.dict.len() / 2);
    let mut repredicted = false;
    for predict_tags in [false, true] {
        let p = util::predictor(spec, predict_tags)?;
        let p_alt = util::predictor(&alt, !predict_tags)?;
        for (ti, text) in case.texts.iter().enumerate() {
            let cs = util::chars(text);
            let (expected, st) = oracle::ref_scores(spec, &cs);
            let mut s = if ti % 2 == 1 {
                Sentence::from_partial_annotation(&util::partial_annotation_of(text, ti))
                    .map_err(|e| format!("from_partial_annotation: {e}"))?
            } else {
                Sentence::from_raw(text.clone()).map_err(|e| format!("from_raw: {e}"))?
            };
            if ti % 3 == 2 || (ti == 0 && case.texts.len() == 1 && cs.len() % 2 == 0) {
                // re-prediction without an update in between: the earlier result must be
                // overwritten completely
                p_alt.predict(&mut s);
                repredicted = true;
            }
            p.predict(&mut s);
            let got = util::scores_i64(&s);
            ensure_eq!(
                got.len(),
                cs.len() - 1,
                "number of scores (text {text:?}, predict_tags={predict_tags})"
            );
            ensure_eq!(
                got,
                expected,
                "boundary scores differ from the linear model (text {text:?}, predict_tags={predict_tags})"
            );
            let labels = util::labels(&s);
            for (i, (&l, &e)) in labels.iter().zip(&expected).enumerate() {
                ensure!(l != UNK, "boundary {i} of {text:?} left unknown after predict");
                let want = if e > 0 { WB } else { NB };
                ensure!(
                    l == want,
                    "boundary {i} of {text:?}: score {e} but label {l} (predict_tags={predict_tags})"
                );
                if e == 0 {
                    zero_score = true;
                }
            }
            ensure_eq!(s.as_raw_text(), text.as_str(), "text changed by predict");
            if !predict_tags {
                contributions += st.contributions;
                stats_all.left_overhang |= st.left_overhang;
                stats_all.right_overhang |= st.right_overhang;
                stats_all.suffix_chain_match |= st.suffix_chain_match;
                stats_all.dict_equals_ngram_match |= st.dict_equals_ngram_match;
            }
        }
    }
    info.nontrivial = contributions > 0;
    let variable = spec.char_ngrams.iter().any(|g| g.weights.len() > 8)
        || spec.type_ngrams.iter().any(|g| g.weights.len() > 8)
        || spec.dict.iter().any(|d| d.weights.len() > 8);
    let info = info
        .class(stats_all.suffix_chain_match, "suffix-chain-match")
        .class(stats_all.left_overhang, "left-edge-overhang")
        .class(stats_all.right_overhang, "right-edge-overhang")
        .class(stats_all.dict_equals_ngram_match, "dict-word-equals-ngram")
        .class(variable, "variable-layout(>8 weights)")
        .class(
            !spec.type_ngrams.is_empty() && spec.type_window <= 3,
            "type-cache-path(w<=3)",
        )
        .class(
            !spec.type_ngrams.is_empty() && spec.type_window > 3,
            "type-automaton-path(w>3)",
        )
        .class(
            case.texts.iter().any(|t| t.chars().any(|c| c.len_utf8() > 1)),
            "multi-byte-text",
        )
        .class(
            case.texts.iter().any(|t| t.chars().any(|c| c.len_utf8() == 4)),
            "4-byte-char",
        )
        .class(zero_score, "score-exactly-0")
        .class(case.texts.iter().any(|t| t.chars().count() == 1), "one-char-text")
        .class(
            spec.char_window == 255 || spec.type_window == 255,
            "window-255",
        )
        .class(!spec.tag_models.is_empty(), "has-tag-models(BoundaryTag scorers)")
        .class(!spec.dict.is_empty(), "has-dictionary")
        .class(repredicted, "re-predicted-after-another-predictor");
    Ok(info)
}

pub fn run(rep: &mut Report) {
    let n = rep.n(15000, 150000);
    rep.run_prop("model-text", RULE, n, || model_case(ModelCfg::BOUNDARY), test_case);
    let n = rep.n(8000, 80000);
    rep.run_prop(
        "model-text-tagmodels",
        "same oracle on models that also carry tag models, so that predict_tags=true routes \
through the tag-aware scorers",
        n,
        || model_case(ModelCfg::TAGGED),
        test_case,
    );
    rep.assume("character types are defined by the public CharacterType::get_type");
    rep.assume("window 255 is generated rarely and only with small models (reference is quadratic)");
}
