//! C09 — A trained model computes exactly the function the learner produced.

use std::collections::HashMap;

use vaporetto::verif_hooks::{self, HookFeature};
use vaporetto::{Sentence, Trainer};
use vcommon::engine::{Info, Report, TestResult};
use vcommon::mirror::ModelSpec;
use vcommon::oracle::{NB, WB};
use vcommon::train::{self, TrainCase, TrainGenCfg};
#[allow(unused_imports)]
use vcommon::{ensure, ensure_eq};

use crate::util;

pub fn test_case(case: &TrainCase) -> TestResult {
    let cfg = &case.cfg;
    let has_wb = case.corpus.iter().any(|r| r.labels.contains(&WB));
    let has_nb = case.corpus.iter().any(|r| r.labels.contains(&NB));
    if !(has_wb && has_nb) {
        // single-class corpora: totality is C11's business
        return Ok(Info::new(false).class(true, "skipped:single-class-corpus"));
    }
    let sentences: Vec<Sentence<'static, 'static>> =
        case.corpus.iter().map(|r| r.to_sentence()).collect::<Result<_, _>>()?;
    let tag_dict: Vec<Sentence<'static, 'static>> = vec![];
    let mut trainer = match Trainer::new(
        cfg.charw,
        cfg.charn,
        cfg.typew,
        cfg.typen,
        cfg.dict.clone(),
        cfg.dictn,
        &tag_dict,
    ) {
        Ok(t) => t,
        Err(_) => return Ok(Info::new(false).class(true, "skipped:trainer-rejected-configuration")),
    };
    for s in &sentences {
        trainer.add_example(s);
    }
    let _ = verif_hooks::take_train_record();
    // the examples actually handed to the learner (for the train/predict consistency clause)
    let stored = trainer.verif_examples();
    let model = match util::train_deterministic(|| trainer.train(0.01, 1.0, train::solver_of(cfg.solver))) {
        Ok(m) => m,
        Err(_) => return Ok(Info::new(false).class(true, "skipped:train-returned-error")),
    };
    let rec = verif_hooks::take_train_record();
    let bias = rec.bias.ok_or("hook recorded no bias although training succeeded")? as i64;
    let mut weights: HashMap<HookFeature, i64> = HashMap::new();
    for (f, w) in &rec.boundary_weights {
        ensure!(
            (*w as i64).abs() <= 32767,
            "quantised weight {w} of {f:?} outside the 16-bit range"
        );
        ensure!(
            weights.insert(f.clone(), *w as i64).is_none(),
            "feature {f:?} recorded twice by the hook"
        );
    }
    // layout clause: every stored n-gram vector covers exactly the positions of its own window
    let spec = ModelSpec::from_model(&model)?;
    ensure_eq!(spec.char_window, cfg.charw, "char window stored in the model");
    ensure_eq!(spec.type_window, cfg.typew, "type window stored in the model");
    for g in &spec.char_ngrams {
        let l = g.ngram.chars().count();
        ensure_eq!(
            g.weights.len() as isize,
            2 * cfg.charw as isize - l as isize + 1,
            "weight vector length of character n-gram {:?} (charw={}, typew={})",
            g.ngram,
            cfg.charw,
            cfg.typew
        );
    }
    for g in &spec.type_ngrams {
        ensure_eq!(
            g.weights.len() as isize,
            2 * cfg.typew as isize - g.ngram.len() as isize + 1,
            "weight vector length of type n-gram {:?} (charw={}, typew={})",
            g.ngram,
            cfg.charw,
            cfg.typew
        );
    }
    for d in &spec.dict {
        ensure_eq!(d.weights.len(), d.word.chars().count() + 1, "dictionary weight vector of {:?}", d.word);
    }
    // function clause
    let p = vaporetto::Predictor::new(model, false).map_err(|e| format!("Predictor::new on the trained model: {e}"))?;
    let mut nonzero = false;
    let mut dict_weight_used = false;
    for text in &case.eval {
        let cs = util::chars(text);
        let mut s = Sentence::from_raw(text.clone()).map_err(|e| e.to_string())?;
        p.predict(&mut s);
        let got = util::scores_i64(&s);
        let mut want = vec![];
        for i in 0..cs.len() - 1 {
            let mut y = bias;
            for (f, c) in train::ref_boundary_features(cfg, &cs, i) {
                if let Some(w) = weights.get(&f) {
                    y += *w * c as i64;
                    if *w != 0 {
                        nonzero = true;
                        if matches!(f, HookFeature::DictWord { .. }) {
                            dict_weight_used = true;
                        }
                    }
                }
            }
            want.push(y);
        }
        ensure_eq!(
            got,
            want,
            "scores of {text:?} differ from learned bias + learned feature weights (cfg {cfg:?})"
        );
    }
    // train/predict consistency: on every training sentence the model must compute the learner's
    // own function of the example that was stored for that boundary (features exactly as the
    // trainer extracted them), whatever the reference extraction says
    let n_annotated: usize = case.corpus.iter().map(|r| r.labels.iter().filter(|&&l| l != 2).count()).sum();
    let mut consistency_checked = 0;
    if stored.len() == n_annotated {
        let mut k = 0;
        for r in &case.corpus {
            let text = r.text();
            let mut s = Sentence::from_raw(text.clone()).map_err(|e| e.to_string())?;
            p.predict(&mut s);
            let got = util::scores_i64(&s);
            for (i, &l) in r.labels.iter().enumerate() {
                if l == 2 {
                    continue;
                }
                let ex = &stored[k];
                k += 1;
                let mut y = bias;
                for (f, v) in &ex.features {
                    y += weights.get(f).copied().unwrap_or(0) * (*v as i64);
                }
                ensure_eq!(
                    got[i],
                    y,
                    "training sentence {text:?}, boundary {i}: the model's score differs from the learned function of the example stored for it (features {:?}, cfg {cfg:?})",
                    ex.features
                );
                consistency_checked += 1;
            }
        }
    }
    Ok(Info::new(nonzero)
        .class(consistency_checked > 0, "train/predict-consistency-checked")
        .class(true, "trained")
        .class(cfg.charw != cfg.typew, "charw!=typew")
        .class(cfg.typew > cfg.charw, "typew>charw")
        .class(dict_weight_used, "dictionary-weight-used")
        .class(cfg.dict.iter().any(|w| w.chars().count() > cfg.dictn as usize), "dictionary-bucket-overflow")
        .class(cfg.charw == 0 || cfg.typew == 0, "window=0")
        .class(cfg.charn > cfg.charw || cfg.typen > cfg.typew, "n>window")
        .class(case.corpus.iter().any(|r| r.labels.contains(&2)), "partial-annotation")
        .class(true, ["solver0", "solver1", "solver2", "solver3", "solver4", "solver5", "solver6", "solver7"][cfg.solver as usize % 8]))
}

pub fn run(rep: &mut Report) {
    liblinear::toggle_liblinear_stdout_output(false);
    let _guard = util::redirect_output("/verif/target/C09-train-output.log");
    rep.run_enum(
        "long-words",
        "the long-token corpora of C11 (a token of 127 / 255 / 256 / 257 / 300 characters that is a \
dictionary word and an ambiguous tagged token, buckets 1 / 4 / 255): same oracle",
        false,
        [127usize, 255, 256, 257, 300].into_iter().enumerate().flat_map(|(k, l)| [crate::checks::c11::long_word_case(l, k), crate::checks::c11::long_word_case(l, k + 1)]),
        |c: &TrainCase| test_case(c).map(|mut i| { i.nontrivial = true; i }),
    );
    let n = rep.n(20000, 1000000);
    rep.run_prop(
        "trained-function",
        "generated training configurations (window and n-gram sizes 0..4 incl. differing windows \
and n > window, dictionaries cut from the corpus, buckets 1..4, all eight solvers) x tiny corpora \
(tokenized and partially annotated) x evaluation sentences (corpus sentences + fresh ones): the \
scores of Predictor::new(trained model) equal the recorded quantised bias plus the recorded \
quantised weight (hook) of every RefFeature of the boundary; every stored n-gram vector has \
exactly 2*W_own - len + 1 weights. Single-class corpora / training errors are counted and \
skipped (C11). Non-trivial = an evaluation boundary with a non-zero feature weight.",
        n,
        || train::train_case(TrainGenCfg { max_sentences: 6, max_len: 8, tame: false, tag_dict: false, tag_focus: false }),
        test_case,
    );
    rep.assume("liblinear is trusted to be a function of its inputs within one call; its coefficients are read through the verif-hooks record, not re-derived");
}
