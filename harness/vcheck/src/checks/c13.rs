//! C13 — Cargo feature flags change speed, never results.

use std::cell::RefCell;
use std::io::{Read, Write};
use std::process::{Child, ChildStdin, ChildStdout, Command, Stdio};

use vcommon::engine::{Info, Report, TestResult};
use vcommon::gen::ModelCfg;
use vcommon::oracle;
#[allow(unused_imports)]
use vcommon::{ensure, ensure_eq};

use crate::checks::c06::{case_strategy, TagCase};
use crate::util;

const BIN: &str = "/verif/target/workers/bin";
/// the same workers compiled with debug assertions (C18 feature-configurations)
const BIN_CHECKED: &str = "/verif/target/workers-checked/bin";

struct Worker {
    name: String,
    has_tags: bool,
    child: Child,
    stdin: ChildStdin,
    stdout: ChildStdout,
}

impl Drop for Worker {
    fn drop(&mut self) {
        let _ = self.child.kill();
        let _ = self.child.wait();
    }
}

thread_local! {
    static WORKERS: RefCell<Vec<Worker>> = const { RefCell::new(vec![]) };
    static WORKERS_CHECKED: RefCell<Vec<Worker>> = const { RefCell::new(vec![]) };
}

fn worker_names() -> Vec<String> {
    worker_names_in(BIN)
}

fn worker_names_in(dir: &str) -> Vec<String> {
    std::fs::read_to_string(format!("{dir}/list.txt"))
        .map(|s| s.lines().map(|l| l.to_string()).filter(|l| !l.is_empty()).collect())
        .unwrap_or_default()
}

fn spawn_workers() -> Result<Vec<Worker>, String> {
    spawn_workers_in(BIN)
}

fn spawn_workers_in(dir: &str) -> Result<Vec<Worker>, String> {
    let mut v = vec![];
    for name in worker_names_in(dir) {
        let mut child = Command::new(format!("{dir}/{name}"))
            .stdin(Stdio::piped())
            .stdout(Stdio::piped())
            .stderr(Stdio::null())
            .spawn()
            .map_err(|e| format!("cannot spawn worker {name}: {e}"))?;
        let stdin = child.stdin.take().unwrap();
        let stdout = child.stdout.take().unwrap();
        v.push(Worker {
            has_tags: name.contains("tag-prediction"),
            name,
            child,
            stdin,
            stdout,
        });
    }
    Ok(v)
}

#[derive(Debug, PartialEq, Clone)]
struct TextResult {
    scores: Vec<i32>,
    labels: Vec<u8>,
    tags: Option<(usize, Vec<Option<String>>, Vec<Vec<Vec<(String, i32)>>>)>,
}

fn parse(resp: &[u8], n_texts: usize) -> Result<Vec<Result<TextResult, String>>, String> {
    if resp == [0xFF] {
        return Err("worker reports a panic inside the library".into());
    }
    let mut p = 0usize;
    let u32_ = |p: &mut usize| -> Result<u32, String> {
        if *p + 4 > resp.len() {
            return Err("short response".into());
        }
        let v = u32::from_le_bytes(resp[*p..*p + 4].try_into().unwrap());
        *p += 4;
        Ok(v)
    };
    let str_ = |p: &mut usize| -> Result<String, String> {
        let n = {
            if *p + 4 > resp.len() {
                return Err("short response".into());
            }
            let v = u32::from_le_bytes(resp[*p..*p + 4].try_into().unwrap()) as usize;
            *p += 4;
            v
        };
        let s = String::from_utf8(resp[*p..*p + n].to_vec()).map_err(|e| e.to_string())?;
        *p += n;
        Ok(s)
    };
    let mut out = vec![];
    for _ in 0..n_texts {
        let status = resp[p];
        p += 1;
        if status != 0 {
            out.push(Err(str_(&mut p)?));
            continue;
        }
        let n = u32_(&mut p)? as usize;
        let mut scores = vec![];
        for _ in 0..n {
            scores.push(i32::from_le_bytes(resp[p..p + 4].try_into().unwrap()));
            p += 4;
        }
        let n = u32_(&mut p)? as usize;
        let labels = resp[p..p + n].to_vec();
        p += n;
        let has = resp[p];
        p += 1;
        let tags = if has != 0 {
            let n_tags = u32_(&mut p)? as usize;
            let n = u32_(&mut p)? as usize;
            let mut tags = vec![];
            for _ in 0..n {
                let present = resp[p];
                p += 1;
                tags.push(if present != 0 { Some(str_(&mut p)?) } else { None });
            }
            let nt = u32_(&mut p)? as usize;
            let mut cands = vec![];
            for _ in 0..nt {
                let nc = u32_(&mut p)? as usize;
                let mut cats = vec![];
                for _ in 0..nc {
                    let nn = u32_(&mut p)? as usize;
                    let mut c = vec![];
                    for _ in 0..nn {
                        let name = str_(&mut p)?;
                        let sc = i32::from_le_bytes(resp[p..p + 4].try_into().unwrap());
                        p += 4;
                        c.push((name, sc));
                    }
                    cats.push(c);
                }
                cands.push(cats);
            }
            Some((n_tags, tags, cands))
        } else {
            None
        };
        out.push(Ok(TextResult { scores, labels, tags }));
    }
    Ok(out)
}

fn ask(w: &mut Worker, req: &[u8], n_texts: usize) -> Result<Vec<Result<TextResult, String>>, String> {
    w.stdin
        .write_all(&(req.len() as u32).to_le_bytes())
        .and_then(|_| w.stdin.write_all(req))
        .and_then(|_| w.stdin.flush())
        .map_err(|e| format!("worker {} died (write: {e})", w.name))?;
    let mut len = [0u8; 4];
    w.stdout.read_exact(&mut len).map_err(|e| format!("worker {} died (read: {e})", w.name))?;
    let mut resp = vec![0u8; u32::from_le_bytes(len) as usize];
    w.stdout.read_exact(&mut resp).map_err(|e| format!("worker {} died (read: {e})", w.name))?;
    parse(&resp, n_texts).map_err(|e| format!("worker {}: {e}", w.name))
}

fn request(case: &TagCase) -> Vec<u8> {
    request_with(case, true)
}

fn request_with(case: &TagCase, predict_tags: bool) -> Vec<u8> {
    let model = case.spec.to_bytes();
    let mut req = vec![];
    req.extend_from_slice(&(model.len() as u32).to_le_bytes());
    req.extend_from_slice(&model);
    req.push(predict_tags as u8);
    req.extend_from_slice(&(case.texts.len() as u32).to_le_bytes());
    for t in &case.texts {
        req.extend_from_slice(&(t.len() as u32).to_le_bytes());
        req.extend_from_slice(t.as_bytes());
    }
    req
}

pub fn checked_worker_names() -> Vec<String> {
    worker_names_in(BIN_CHECKED)
}

/// C18 under every feature configuration: the case goes to every worker compiled with debug
/// assertions (vaporetto's own debug_assert!s on its unchecked operations plus the standard
/// library's checks of unsafe preconditions). Each worker predicts, tags, serialises and reloads
/// the predictor, predicts and tags again, writes both formats and applies the post-filters.
/// Only a crash counts here: a worker that dies (aborting precondition check, SIGSEGV) or
/// reports a panic. Whether the results are right is C13's question.
pub fn test_case_checked(case: &TagCase) -> TestResult {
    let req = request(case);
    let multibyte = case.texts.iter().any(|t| t.chars().any(|c| c.len_utf8() > 1));
    WORKERS_CHECKED.with(|ws| -> Result<(), vcommon::engine::Fail> {
        let mut ws = ws.borrow_mut();
        if ws.is_empty() {
            *ws = spawn_workers_in(BIN_CHECKED)?;
            if ws.is_empty() {
                return Err("no checked workers built (tools/build_workers.sh quick checked)".into());
            }
        }
        let mut failed: Option<String> = None;
        for w in ws.iter_mut() {
            if let Err(e) = ask(w, &req, 2 * case.texts.len()) {
                failed = Some(format!("build {} with debug assertions: {e}", w.name));
                break;
            }
        }
        if let Some(f) = failed {
            ws.clear();
            return Err(f.into());
        }
        Ok(())
    })?;
    Ok(Info::new(multibyte && !case.spec.tag_models.is_empty())
        .class(multibyte, "multi-byte-text")
        .class(!case.spec.tag_models.is_empty(), "tag-models"))
}

pub fn test_case(case: &TagCase) -> TestResult {
    // every fourth case asks for boundaries only: the builds then use their plain scorers even
    // though the model has tag models
    let with_tags = case.spec.bias.rem_euclid(4) != 0;
    test_case_with(case, with_tags)
}

pub fn test_case_with(case: &TagCase, with_tags: bool) -> TestResult {
    let spec = &case.spec;
    let req = request_with(case, with_tags);
    // ground truth for the tie: RefScore / RefTags on the predicted boundaries
    let mut truth = vec![];
    let mut contributions = 0;
    let mut multibyte = false;
    for t in &case.texts {
        let cs = util::chars(t);
        let (scores, st) = oracle::ref_scores(spec, &cs);
        contributions += st.contributions;
        multibyte |= cs.iter().any(|c| c.len_utf8() > 1);
        let labels: Vec<u8> = scores.iter().map(|&s| (s > 0) as u8).collect();
        let (n_tags, flat, per_token, _) = oracle::ref_tags(spec, &cs, &labels);
        let cands: Vec<Vec<Vec<(String, i32)>>> = per_token
            .iter()
            .map(|t| t.candidates.iter().map(|c| c.iter().map(|(n, s)| (n.clone(), *s as i32)).collect()).collect())
            .collect();
        truth.push(TextResult {
            scores: scores.iter().map(|&s| s as i32).collect(),
            labels,
            tags: Some((n_tags, flat, cands)),
        });
    }
    WORKERS.with(|ws| -> Result<(), vcommon::engine::Fail> {
        let mut ws = ws.borrow_mut();
        if ws.is_empty() {
            *ws = spawn_workers()?;
            if ws.is_empty() {
                return Err("no workers built (tools/build_workers.sh)".into());
            }
        }
        let mut failed: Option<String> = None;
        for w in ws.iter_mut() {
            let r = match ask(w, &req, 2 * case.texts.len()) {
                Ok(r) => r,
                Err(e) => {
                    failed = Some(e);
                    break;
                }
            };
            // results come twice: from the predictor as built, and from the same predictor after a
            // serialise/deserialise round trip inside that build
            for (ri, got) in r.iter().enumerate() {
                let ti = ri % case.texts.len();
                let want = &truth[ti];
                let variant = if ri < case.texts.len() { "" } else { " (predictor reloaded from its serialisation)" };
                let got = match got {
                    Ok(g) => g,
                    Err(e) => {
                        failed = Some(format!("build {}{variant} rejects text {:?}: {e}", w.name, case.texts[ti]));
                        break;
                    }
                };
                if got.scores != want.scores || got.labels != want.labels {
                    failed = Some(format!(
                        "build {}{variant}: scores/boundaries of {:?} differ from the reference model: {:?} vs {:?}",
                        w.name, case.texts[ti], got.scores, want.scores
                    ));
                    break;
                }
                if !with_tags {
                    if got.tags.is_some() {
                        failed = Some(format!("build {} returned tags although none were asked for", w.name));
                        break;
                    }
                } else if w.has_tags {
                    if got.tags != want.tags {
                        failed = Some(format!(
                            "build {}{variant}: tags of {:?} differ from the reference: {:?} vs {:?}",
                            w.name, case.texts[ti], got.tags, want.tags
                        ));
                        break;
                    }
                } else if got.tags.is_some() {
                    failed = Some(format!("build {} without tag-prediction returned tags", w.name));
                    break;
                }
            }
            if failed.is_some() {
                break;
            }
        }
        if let Some(f) = failed {
            // a dead or desynchronised worker must not poison later cases
            ws.clear();
            return Err(f.into());
        }
        Ok(())
    })?;
    Ok(Info::new(contributions > 0)
        .class(!spec.type_ngrams.is_empty() && spec.type_window <= 3, "type-window<=3(cache vs automaton builds differ)")
        .class(
            spec.char_ngrams.iter().any(|g| g.weights.len() <= 8) || spec.dict.iter().any(|d| d.weights.len() <= 8),
            "<=8-weights(fixed vs variable builds differ)",
        )
        .class(multibyte, "multi-byte-text(charwise vs bytewise builds differ)")
        .class(!with_tags, "boundaries-only-request")
        .class(!spec.tag_models.is_empty(), "tag-models"))
}

pub fn run(rep: &mut Report) {
    let names = worker_names();
    if names.is_empty() {
        eprintln!("no C13 workers found in {BIN}; run tools/build_workers.sh");
        std::process::exit(2);
    }
    let n = rep.n(6000, 60000);
    let rule = format!(
        "generated models (with tag models) x texts sent to {} worker processes, one per vaporetto \
feature subset ({}), each using only Model::read_slice, each predicting twice (with the predictor \
as built and with the same predictor after a serialise/deserialise round trip inside that build): \
every worker's scores and boundaries, and the tags/tag scores of every worker compiled with \
tag-prediction, must equal RefScore/RefTags \
(so all builds agree with each other AND with the ground truth). Non-trivial = a model entry \
contributes to an existing boundary.",
        names.len(),
        names.join(" | ")
    );
    rep.run_enum(
        "large-models",
        "the deterministic large models of C14 (5,000 tag models; 70,000 character n-grams = more \
than 65,535 patterns) through every build, once with and once without tag prediction requested; \
same oracle",
        false,
        [
            crate::checks::c14::LargeCase { n_tag_models: 5000, n_char_ngrams: 300, n_words: 40, n_long_words: 0, long_text: 0 },
            crate::checks::c14::LargeCase { n_tag_models: 200, n_char_ngrams: 70000, n_words: 250, n_long_words: 0, long_text: 0 },
            crate::checks::c14::LargeCase { n_tag_models: 0, n_char_ngrams: 66000, n_words: 100, n_long_words: 0, long_text: 0 },
        ]
        .into_iter()
        .flat_map(|c| [(c.clone(), true), (c, false)]),
        |(c, with_tags): &(crate::checks::c14::LargeCase, bool)| {
            let m = crate::checks::c14::large_model(c);
            let texts: Vec<String> = m.texts.into_iter().take(6).collect();
            let case = TagCase { spec: m.spec, edits: vec![vec![]; texts.len()], texts, pre: None };
            test_case_with(&case, *with_tags).map(|mut i| {
                i.nontrivial = true;
                i
            })
        },
    );
    rep.run_prop("feature-builds", &rule, n, || case_strategy(ModelCfg::TAGGED), test_case);
    rep.extra("builds", serde_json::json!(names));
    rep.assume("quick compares 7 feature subsets (default, each optional feature removed, alloc-only, portable-simd on nightly); thorough all 48");
}
