//! vcheck <ID> quick|thorough | <ID> --replay FILE

use vcheck::checks;
use vcommon::engine::{self, Report};

fn main() {
    let args: Vec<String> = std::env::args().skip(1).collect();
    let ctx = engine::ctx_from_args(&args);
    engine::install_quiet_panic_hook();
    if let Err(e) = vcommon::mirror::self_test() {
        eprintln!("harness self-test failed (cannot speak the model format): {e}");
        std::process::exit(2);
    }
    let id = ctx.id.clone();
    let mut rep = Report::new(ctx);
    match id.as_str() {
        "C01" => checks::c01::run(&mut rep),
        "C02" => checks::c02::run(&mut rep),
        "C03" => checks::c03::run(&mut rep),
        "C04" => checks::c04::run(&mut rep),
        "C05" => checks::c05::run(&mut rep),
        "C06" => checks::c06::run(&mut rep),
        "C07" => checks::c07::run(&mut rep),
        "C08" => {
            if std::env::var("VERIF_C08_THREADS_ONLY").is_ok() {
                checks::c08::run_threads_only(&mut rep)
            } else {
                checks::c08::run(&mut rep)
            }
        }
        "C09" => checks::c09::run(&mut rep),
        "C10" => checks::c10::run(&mut rep),
        "C11" => checks::c11::run(&mut rep),
        "C12" => checks::c12::run(&mut rep),
        "C13" => checks::c13::run(&mut rep),
        "C14" => checks::c14::run(&mut rep),
        "C15" => checks::c15::run(&mut rep),
        "C17" => checks::c17::run(&mut rep),
        "C18" => checks::c18::run(&mut rep),
        "C19" => checks::c19::run(&mut rep),
        "C20" => checks::c20::run(&mut rep),
        _ => {
            eprintln!("unknown property id {id}");
            std::process::exit(2);
        }
    }
    rep.finish();
}
