//! The checks as a library (used by the `vcheck` binary and by the fuzz targets).
pub mod checks;
pub mod util;
