//! Common machinery of the vaporetto verification harness.

pub mod bytes;
pub mod engine;
pub mod gen;
pub mod kytea;
pub mod mirror;
pub mod oracle;
pub mod train;

pub use engine::{Fail, Info, Report, TestResult, Tier};
