//! Training-side generators and the reference feature extraction (RefFeatures), written from the
//! documented feature templates.

use std::collections::BTreeMap;

use proptest::collection::vec;
use proptest::prelude::*;
use serde::{Deserialize, Serialize};
use vaporetto::verif_hooks::HookFeature;

use crate::gen::{self, pick};
use crate::oracle::{self, RefSentence, NB, UNK, WB};

#[derive(Clone, Debug, Serialize, Deserialize, PartialEq)]
pub struct TrainCfg {
    pub charw: u8,
    pub charn: u8,
    pub typew: u8,
    pub typen: u8,
    pub dict: Vec<String>,
    pub dictn: u8,
    pub solver: u8,
}

#[derive(Clone, Debug, Serialize, Deserialize)]
pub struct TrainCase {
    pub cfg: TrainCfg,
    pub corpus: Vec<RefSentence>,
    /// sentences of the tag dictionary (tokenized form)
    pub tag_dict: Vec<RefSentence>,
    /// evaluation texts
    pub eval: Vec<String>,
}

pub fn solver_of(i: u8) -> vaporetto::SolverType {
    use vaporetto::SolverType::*;
    match i % 8 {
        0 => L2RegularizedLogistic,
        1 => L2RegularizedL2LossSVCDual,
        2 => L2RegularizedL2LossSVC,
        3 => L2RegularizedL1LossSVCDual,
        4 => CrammerSingerSVC,
        5 => L1RegularizedL2LossSVC,
        6 => L1RegularizedLogistic,
        _ => L2RegularizedLogisticDual,
    }
}

pub fn liblinear_solver_of(i: u8) -> liblinear::SolverType {
    use liblinear::SolverType::*;
    match i % 8 {
        0 => L2R_LR,
        1 => L2R_L2LOSS_SVC_DUAL,
        2 => L2R_L2LOSS_SVC,
        3 => L2R_L1LOSS_SVC_DUAL,
        4 => MCSVM_CS,
        5 => L1R_L2LOSS_SVC,
        6 => L1R_LR,
        _ => L2R_LR_DUAL,
    }
}

/// Boundary features of boundary `i` (between characters i and i+1) with multiplicities.
pub fn ref_boundary_features(cfg: &TrainCfg, chars: &[char], i: usize) -> BTreeMap<HookFeature, f64> {
    let n = chars.len();
    let types = oracle::types_of(chars);
    let mut out: BTreeMap<HookFeature, f64> = BTreeMap::new();
    let b = i as isize;
    // character n-grams of length 1..=charn lying inside the window [b+1-W, b+1+W)
    let w = cfg.charw as isize;
    for len in 1..=cfg.charn as isize {
        // only start positions near the boundary can satisfy the window condition below
        for j in (b + 1 - w).max(0)..(b + 2 + w).min(n as isize) {
            if j >= b + 1 - w && j + len <= b + 1 + w && j + len <= n as isize {
                let ngram: String = chars[j as usize..(j + len) as usize].iter().collect();
                *out.entry(HookFeature::CharNgram {
                    ngram,
                    rel_position: j - b - 1,
                })
                .or_default() += 1.0;
            }
        }
    }
    let w = cfg.typew as isize;
    for len in 1..=cfg.typen as isize {
        for j in (b + 1 - w).max(0)..(b + 2 + w).min(n as isize) {
            if j >= b + 1 - w && j + len <= b + 1 + w && j + len <= n as isize {
                let ngram = types[j as usize..(j + len) as usize].to_vec();
                *out.entry(HookFeature::TypeNgram {
                    ngram,
                    rel_position: j - b - 1,
                })
                .or_default() += 1.0;
            }
        }
    }
    // dictionary words touching the boundary
    for (wi, word) in cfg.dict.iter().enumerate() {
        // a dictionary is a set of words: a word listed twice (which Trainer::new refuses today)
        // still has one occurrence per place where it occurs
        if cfg.dict[..wi].contains(word) {
            continue;
        }
        let pat: Vec<char> = word.chars().collect();
        if pat.is_empty() || pat.len() > n {
            continue;
        }
        // an occurrence touches boundary i only if it starts in [i + 1 - len, i + 1]
        let lo = (i + 1).saturating_sub(pat.len());
        let hi = (i + 1).min(n - pat.len());
        for start in lo..=hi {
            if chars[start..start + pat.len()] != pat[..] {
                continue;
            }
            let end = start + pat.len();
            let length = pat.len().min(cfg.dictn as usize);
            let pos = if start > 0 && i == start - 1 {
                Some(0u8) // the word begins right after this boundary
            } else if i >= start && i + 1 < end {
                Some(1u8) // the boundary is inside the word
            } else if end < n && i == end - 1 {
                Some(2u8) // the word ends right before this boundary
            } else {
                None
            };
            if let Some(position) = pos {
                *out.entry(HookFeature::DictWord { length, position }).or_default() += 1.0;
            }
        }
    }
    out
}

/// Tag features of a token [start, end): n-grams of length token_len + 1 ..= token_len + N that
/// contain the token, keyed by the number of characters past the token end.
pub fn ref_tag_features(cfg: &TrainCfg, chars: &[char], start: usize, end: usize) -> Vec<HookFeature> {
    let n = chars.len();
    let types = oracle::types_of(chars);
    let tl = end - start;
    let mut out = vec![];
    for extra in 1..=cfg.charn as usize {
        let len = tl + extra;
        for i in 0..n {
            if i <= start && i + len >= end && i + len <= n {
                out.push(HookFeature::CharNgram {
                    ngram: chars[i..i + len].iter().collect(),
                    rel_position: (i + len - end) as isize,
                });
            }
        }
    }
    for extra in 1..=cfg.typen as usize {
        let len = tl + extra;
        for i in 0..n {
            if i <= start && i + len >= end && i + len <= n {
                out.push(HookFeature::TypeNgram {
                    ngram: types[i..i + len].to_vec(),
                    rel_position: (i + len - end) as isize,
                });
            }
        }
    }
    out
}

// ------------------------------------------------------------------------------------------
// generators

#[derive(Clone, Debug)]
pub struct RawCorpusSentence {
    pub text: Vec<u16>,
    pub labels: Vec<u8>,
    /// 0 = tokenized (no unknown), 1 = partial (unknown allowed), 2 = all unknown
    pub form: u8,
    pub tagged: bool,
    pub tags: Vec<Vec<Option<u16>>>,
}

fn raw_corpus_sentence(max_len: usize) -> impl Strategy<Value = RawCorpusSentence> {
    (
        vec(any::<u16>(), 1..=max_len),
        vec(prop_oneof![3 => Just(WB), 3 => Just(NB), 2 => Just(UNK)], max_len),
        prop_oneof![5 => Just(0u8), 3 => Just(1u8), 1 => Just(2u8)],
        prop::bool::weighted(0.6),
        vec(vec(prop::option::weighted(0.7, any::<u16>()), 3), max_len),
    )
        .prop_map(|(text, labels, form, tagged, tags)| RawCorpusSentence {
            text,
            labels,
            form,
            tagged,
            tags,
        })
}

const TRAIN_TAGS: &[&str] = &["名詞", "動詞", "N", "V", "助詞", "X-y", "ア", "イ", "ウ", "t7", "t8", "t9", "t10"];

fn resolve_corpus_sentence(raw: &RawCorpusSentence, palette: &[char], n_tags: usize) -> RefSentence {
    let chars: Vec<char> = raw.text.iter().map(|&i| palette[pick(i, palette.len())]).collect();
    let n = chars.len();
    let labels: Vec<u8> = raw.labels[..n - 1]
        .iter()
        .map(|&l| match raw.form {
            0 => {
                if l == UNK {
                    NB
                } else {
                    l
                }
            }
            1 => l,
            _ => UNK,
        })
        .collect();
    // tagged sentences of one corpus do not all have the same number of tag columns
    let nt = if !raw.tagged {
        0
    } else if n_tags > 1 && raw.text[0] & 3 == 1 {
        n_tags - 1
    } else {
        n_tags
    };
    let tags = (0..n)
        .map(|i| {
            (0..nt)
                .map(|j| {
                    raw.tags[i][j].map(|t| {
                        // the tag depends mostly on the character so that tokens repeat their tags,
                        // with some ambiguity
                        // mostly two alternatives per (character, category); sometimes up to
                        // six, so that a token can have more than 8 trainable classes in total
                        let spread = if t & 0x300 == 0x300 { (t as usize >> 4) % 6 } else { t as usize & 1 };
                        let k = (chars[i] as usize + j * 3 + spread) % TRAIN_TAGS.len();
                        TRAIN_TAGS[k].to_string()
                    })
                })
                .collect()
        })
        .collect();
    RefSentence {
        chars,
        labels,
        tags,
        n_tags: nt,
    }
}

pub fn small_param() -> impl Strategy<Value = u8> {
    prop_oneof![1 => Just(0u8), 3 => Just(1u8), 3 => Just(2u8), 3 => Just(3u8), 1 => Just(4u8)]
}

#[derive(Clone, Copy, Debug)]
pub struct TrainGenCfg {
    pub max_sentences: usize,
    pub max_len: usize,
    /// window / n-gram sizes >= 1 and n <= window (the well-behaved region)
    pub tame: bool,
    pub tag_dict: bool,
    /// small alphabet, every sentence tagged, more word boundaries: tokens repeat with
    /// ambiguous tags
    pub tag_focus: bool,
}

pub fn train_case(g: TrainGenCfg) -> impl Strategy<Value = TrainCase> {
    (
        gen::palette_raw(3, 6),
        (small_param(), small_param(), small_param(), small_param(), 1u8..=4, 0u8..8),
        vec(raw_corpus_sentence(g.max_len), 1..=g.max_sentences),
        vec((any::<u16>(), any::<u16>(), 1usize..=5), 0..=4),
        vec(vec(any::<u16>(), 1..=g.max_len), 1..=3),
        0usize..=3,
        vec(raw_corpus_sentence(4), 0..=2),
        any::<u16>(),
    )
        .prop_map(move |(pal, (cw, cn, tw, tn, dictn, solver), sents, dict_sel, eval, n_tags, tdict, mode)| {
            let mut palette = gen::resolve_palette(&pal, false);
            let mut sents = sents;
            let mut n_tags = n_tags;
            if g.tag_focus {
                palette.truncate(3);
                n_tags = n_tags.max(1);
                for (k, s) in sents.iter_mut().enumerate() {
                    s.tagged = true;
                    for (i, l) in s.labels.iter_mut().enumerate() {
                        if (i + k) % 2 == 0 && *l == NB {
                            *l = WB;
                        }
                    }
                }
            }
            let corpus: Vec<RefSentence> =
                sents.iter().map(|s| resolve_corpus_sentence(s, &palette, n_tags)).collect();
            // dictionary words cut from corpus substrings
            let mut dict: Vec<String> = vec![];
            for (si, st, len) in dict_sel {
                let s = &corpus[pick(si, corpus.len())];
                let start = pick(st, s.chars.len());
                let end = (start + len).min(s.chars.len());
                let w: String = s.chars[start..end].iter().collect();
                // (now and then the same word twice: rejected by Trainer::new today; if a
                // trainer accepts it, the model must still compute the learned function)
                if !dict.contains(&w) || si % 16 == 3 {
                    dict.push(w);
                }
            }
            let (mut charw, mut charn, mut typew, mut typen) = (cw, cn, tw, tn);
            if !g.tame {
                // now and then a window beyond the predictor's 7 padding slots / 8 fixed weights
                if mode % 11 == 5 {
                    charw = 8 + ((mode >> 5) % 3) as u8;
                }
                if mode % 13 == 7 {
                    typew = 8 + ((mode >> 7) % 3) as u8;
                }
                // ... and around the point where twice the window no longer fits into a byte
                const WIDE: [u8; 8] = [126, 127, 128, 129, 130, 131, 200, 255];
                if mode % 17 == 3 {
                    charw = WIDE[(mode >> 6) as usize % WIDE.len()];
                }
                if mode % 19 == 4 {
                    typew = WIDE[(mode >> 8) as usize % WIDE.len()];
                }
            }
            if g.tame {
                charw = charw.clamp(1, 3);
                typew = typew.clamp(1, 3);
                charn = charn.clamp(1, charw);
                typen = typen.clamp(1, typew);
                if mode & 1 == 0 && charw == typew {
                    // bias towards differing windows
                    typew = if typew == 3 { 1 } else { typew + 1 };
                    typen = typen.min(typew);
                }
            }
            let tag_dict: Vec<RefSentence> = if g.tag_dict {
                tdict
                    .iter()
                    .map(|s| {
                        let mut r = resolve_corpus_sentence(s, &palette, n_tags.max(1));
                        for l in r.labels.iter_mut() {
                            if *l == UNK {
                                *l = WB;
                            }
                        }
                        r
                    })
                    .collect()
            } else {
                vec![]
            };
            let mut eval_texts: Vec<String> = eval
                .iter()
                .map(|t| t.iter().map(|&i| palette[pick(i, palette.len())]).collect())
                .collect();
            // corpus sentences are evaluation sentences too
            for s in corpus.iter().take(3) {
                eval_texts.push(s.text());
            }
            TrainCase {
                cfg: TrainCfg {
                    charw,
                    charn,
                    typew,
                    typen,
                    dict,
                    dictn,
                    solver,
                },
                corpus,
                tag_dict,
                eval: eval_texts,
            }
        })
}

/// For checks that write the corpus to files: appends to some sentences a last token that is a
/// single Unicode white-space character other than the ASCII space (U+3000, U+00A0, U+2003, tab,
/// U+0085 ...), tagged like any other token. Such tokens are ordinary text for the library;
/// code that "tidies" lines with trim() drops them.
pub fn with_whitespace_tokens(mut c: TrainCase, salt: u16) -> TrainCase {
    const WS: [char; 8] = ['\u{3000}', '\u{a0}', '\u{2003}', '\t', '\u{85}', '\u{2028}', '\u{b}', '\u{1680}'];
    for (k, r) in c.corpus.iter_mut().chain(c.tag_dict.iter_mut()).enumerate() {
        if (k + salt as usize) % 3 != 0 || r.chars.is_empty() {
            continue;
        }
        r.chars.push(WS[(k + salt as usize / 3) % WS.len()]);
        r.labels.push(WB);
        r.tags.push((0..r.n_tags).map(|j| Some(format!("ws{j}"))).collect());
    }
    c
}
