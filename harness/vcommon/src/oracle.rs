//! Independent, deliberately naive reference implementations written from the property
//! statements and the public documentation. No automata, no merging, no padding, no layouts.

use vaporetto::{CharacterBoundary, CharacterType, Sentence};

use crate::mirror::{ModelSpec, TagModelSpec};

pub const NB: u8 = 0; // not a word boundary
pub const WB: u8 = 1; // word boundary
pub const UNK: u8 = 2; // unknown

pub fn type_of(c: char) -> u8 {
    CharacterType::get_type(c) as u8
}

pub fn types_of(text: &[char]) -> Vec<u8> {
    text.iter().map(|&c| type_of(c)).collect()
}

pub fn label_of(b: CharacterBoundary) -> u8 {
    match b {
        CharacterBoundary::NotWordBoundary => NB,
        CharacterBoundary::WordBoundary => WB,
        CharacterBoundary::Unknown => UNK,
    }
}

pub fn boundary_of(l: u8) -> CharacterBoundary {
    match l {
        NB => CharacterBoundary::NotWordBoundary,
        WB => CharacterBoundary::WordBoundary,
        _ => CharacterBoundary::Unknown,
    }
}

pub fn labels_of(s: &Sentence) -> Vec<u8> {
    s.boundaries().iter().map(|&b| label_of(b)).collect()
}

fn occurs<T: PartialEq>(hay: &[T], at: usize, needle: &[T]) -> bool {
    at + needle.len() <= hay.len() && &hay[at..at + needle.len()] == needle
}

/// Statistics about which interaction regions a (model, text) pair reaches.
#[derive(Default, Clone, Debug)]
pub struct ScoreStats {
    pub contributions: usize,
    pub left_overhang: bool,
    pub right_overhang: bool,
    pub suffix_chain_match: bool,
    pub dict_equals_ngram_match: bool,
}

/// RefScore: the pointwise linear model computed by brute force.
///
/// n-gram of length L starting at character j with window W: weight k belongs to boundary
/// j + L - 1 - W + k. Dictionary word starting at j: weight k belongs to boundary j - 1 + k.
/// Boundary b lies between characters b and b+1.
pub fn ref_scores(spec: &ModelSpec, text: &[char]) -> (Vec<i64>, ScoreStats) {
    let n = text.len();
    let mut st = ScoreStats::default();
    if n == 0 {
        return (vec![], st);
    }
    let nb = n - 1;
    let mut scores = vec![spec.bias as i64; nb];
    let types = types_of(text);
    let mut add = |b: isize, w: i32, st: &mut ScoreStats| {
        if b < 0 {
            st.left_overhang = true;
        } else if (b as usize) >= nb {
            st.right_overhang = true;
        } else {
            scores[b as usize] += w as i64;
            st.contributions += 1;
        }
    };
    let mut matched_char_patterns: Vec<Vec<char>> = vec![];
    for g in &spec.char_ngrams {
        let pat: Vec<char> = g.ngram.chars().collect();
        let l = pat.len();
        if l == 0 || spec.char_window == 0 {
            // an empty window reaches no boundary
            continue;
        }
        let w = spec.char_window as isize;
        for j in 0..n {
            if occurs(text, j, &pat) {
                matched_char_patterns.push(pat.clone());
                for (k, &wt) in g.weights.iter().enumerate() {
                    add(j as isize + l as isize - 1 - w + k as isize, wt, &mut st);
                }
            }
        }
    }
    for g in &spec.type_ngrams {
        let l = g.ngram.len();
        if l == 0 || spec.type_window == 0 {
            continue;
        }
        let w = spec.type_window as isize;
        for j in 0..n {
            if occurs(&types, j, &g.ngram) {
                for (k, &wt) in g.weights.iter().enumerate() {
                    add(j as isize + l as isize - 1 - w + k as isize, wt, &mut st);
                }
                if spec
                    .type_ngrams
                    .iter()
                    .any(|o| o.ngram.len() < l && g.ngram.ends_with(&o.ngram))
                {
                    st.suffix_chain_match = true;
                }
            }
        }
    }
    for d in &spec.dict {
        let pat: Vec<char> = d.word.chars().collect();
        if pat.is_empty() {
            continue;
        }
        for j in 0..n {
            if occurs(text, j, &pat) {
                if spec.char_ngrams.iter().any(|g| g.ngram == d.word) {
                    st.dict_equals_ngram_match = true;
                }
                matched_char_patterns.push(pat.clone());
                for (k, &wt) in d.weights.iter().enumerate() {
                    add(j as isize - 1 + k as isize, wt, &mut st);
                }
            }
        }
    }
    // suffix chain: a matched character pattern has a proper suffix among the model's patterns
    let all_pats: Vec<Vec<char>> = spec
        .char_ngrams
        .iter()
        .map(|g| g.ngram.chars().collect())
        .chain(spec.dict.iter().map(|d| d.word.chars().collect()))
        .collect();
    for m in &matched_char_patterns {
        if all_pats
            .iter()
            .any(|p: &Vec<char>| p.len() < m.len() && !p.is_empty() && m.ends_with(p))
        {
            st.suffix_chain_match = true;
        }
    }
    (scores, st)
}

/// Contribution of a dictionary alone (used by C19): scores with bias 0 and only `dict`.
pub fn ref_dict_scores(dict: &[crate::mirror::WordSpec], text: &[char]) -> Vec<i64> {
    let spec = ModelSpec {
        dict: dict.to_vec(),
        ..ModelSpec::default()
    };
    ref_scores(&spec, text).0
}

/// A token of the reference tokenisation: [start, end) in characters.
#[derive(Clone, Debug, PartialEq, Eq)]
pub struct RefToken {
    pub start: usize,
    pub end: usize,
}

/// RefTokens: segments between word boundaries; a segment containing an unknown label is
/// dropped.
pub fn ref_tokens(labels: &[u8]) -> Vec<RefToken> {
    let n = labels.len() + 1;
    let mut out = vec![];
    let mut start = 0;
    let mut has_unknown = false;
    for (i, &l) in labels.iter().enumerate() {
        match l {
            WB => {
                if !has_unknown {
                    out.push(RefToken { start, end: i + 1 });
                }
                start = i + 1;
                has_unknown = false;
            }
            UNK => has_unknown = true,
            _ => {}
        }
    }
    if !has_unknown {
        out.push(RefToken { start, end: n });
    }
    out
}

#[derive(Clone, Debug, Default)]
pub struct TagStats {
    pub tokens_with_model: usize,
    pub contributions: usize,
    pub multi_cand_contribution: bool,
    pub tie: bool,
    pub rel_pos_gt0: bool,
    pub type_contribution: bool,
    pub more_than_8_classes: bool,
}

/// Per token with a tag model: the class scores (over categories with >= 2 candidates, in
/// category order) and the winning tag per category.
#[derive(Clone, Debug, PartialEq, Eq)]
pub struct RefTokenTags {
    pub token: RefToken,
    /// `None` when the token has no tag model.
    pub model_index: Option<usize>,
    pub tags: Vec<Option<String>>,
    /// candidates with scores per category (score 0 for single-candidate categories)
    pub candidates: Vec<Vec<(String, i64)>>,
}

pub fn ref_class_scores(
    tm: &TagModelSpec,
    text: &[char],
    types: &[u8],
    last: usize,
    st: &mut TagStats,
) -> Vec<i64> {
    let n = text.len();
    let mut scores: Vec<i64> = tm.bias.iter().map(|&b| b as i64).collect();
    for g in &tm.char_ngrams {
        let pat: Vec<char> = g.ngram.chars().collect();
        let l = pat.len();
        if l == 0 {
            continue;
        }
        for tw in &g.weights {
            let e = last + tw.rel_position as usize; // index of the occurrence's last character
            if e >= n || e + 1 < l {
                continue;
            }
            if occurs(text, e + 1 - l, &pat) {
                for (c, &w) in tw.weights.iter().enumerate() {
                    if c < scores.len() {
                        scores[c] += w as i64;
                    }
                }
                st.contributions += 1;
                if tw.rel_position > 0 {
                    st.rel_pos_gt0 = true;
                }
            }
        }
    }
    for g in &tm.type_ngrams {
        let l = g.ngram.len();
        if l == 0 {
            continue;
        }
        for tw in &g.weights {
            let e = last + tw.rel_position as usize;
            if e >= n || e + 1 < l {
                continue;
            }
            if occurs(types, e + 1 - l, &g.ngram) {
                for (c, &w) in tw.weights.iter().enumerate() {
                    if c < scores.len() {
                        scores[c] += w as i64;
                    }
                }
                st.contributions += 1;
                st.type_contribution = true;
                if tw.rel_position > 0 {
                    st.rel_pos_gt0 = true;
                }
            }
        }
    }
    scores
}

/// RefTags: tags per token for a model with tag models and given boundary labels.
/// Returns the flat tag table (`chars x n_tags`, tags at the token's last character) and the
/// per-token details.
pub fn ref_tags(
    spec: &ModelSpec,
    text: &[char],
    labels: &[u8],
) -> (usize, Vec<Option<String>>, Vec<RefTokenTags>, TagStats) {
    let n_tags = spec.n_tags();
    let n = text.len();
    let types = types_of(text);
    let mut flat = vec![None; n * n_tags];
    let mut per_token = vec![];
    let mut st = TagStats::default();
    for tok in ref_tokens(labels) {
        let surface: String = text[tok.start..tok.end].iter().collect();
        let mi = spec.tag_models.iter().position(|t| t.token == surface);
        let mut tags = vec![None; n_tags];
        let mut candidates = vec![];
        if let Some(mi) = mi {
            let tm = &spec.tag_models[mi];
            st.tokens_with_model += 1;
            let before = st.contributions;
            let scores = ref_class_scores(tm, text, &types, tok.end - 1, &mut st);
            if scores.len() > 8 {
                st.more_than_8_classes = true;
            }
            let mut offset = 0;
            for (c, cands) in tm.tags.iter().enumerate() {
                if cands.len() >= 2 {
                    let sl = &scores[offset..offset + cands.len()];
                    let mut best = 0;
                    for (i, &s) in sl.iter().enumerate() {
                        if s > sl[best] {
                            best = i;
                        }
                    }
                    if sl.iter().filter(|&&s| s == sl[best]).count() > 1 {
                        st.tie = true;
                    }
                    if st.contributions > before {
                        st.multi_cand_contribution = true;
                    }
                    tags[c] = Some(cands[best].clone());
                    candidates.push(
                        cands
                            .iter()
                            .cloned()
                            .zip(sl.iter().copied())
                            .collect::<Vec<_>>(),
                    );
                    offset += cands.len();
                } else {
                    tags[c] = cands.first().cloned();
                    candidates.push(cands.iter().map(|t| (t.clone(), 0i64)).collect());
                }
            }
            let p = tok.end - 1;
            for (c, t) in tags.iter().enumerate() {
                flat[p * n_tags + c] = t.clone();
            }
        }
        per_token.push(RefTokenTags {
            token: tok,
            model_index: mi,
            tags,
            candidates,
        });
    }
    (n_tags, flat, per_token, st)
}

// ------------------------------------------------------------------------------------------
// Reference annotated sentence, writers and parsers (from the doc comments of
// `from_tokenized` / `from_partial_annotation` / `write_*`)

#[derive(Clone, Debug, PartialEq, Eq, serde::Serialize, serde::Deserialize)]
pub struct RefSentence {
    pub chars: Vec<char>,
    /// one label per adjacent pair
    pub labels: Vec<u8>,
    /// per character: tag list (may be shorter than n_tags; missing = absent)
    pub tags: Vec<Vec<Option<String>>>,
    pub n_tags: usize,
}

impl RefSentence {
    pub fn text(&self) -> String {
        self.chars.iter().collect()
    }

    /// Flat `chars x n_tags` table.
    pub fn flat_tags(&self) -> Vec<Option<String>> {
        let mut out = vec![];
        for t in &self.tags {
            for j in 0..self.n_tags {
                out.push(t.get(j).cloned().flatten());
            }
        }
        out
    }

    /// Builds the real sentence through the public API. The same state is reached by one of
    /// four routes, chosen by the content (not by a random draw): the text comes in through
    /// from_raw, through from_tokenized / from_partial_annotation of an untagged rendering of the
    /// same text, or through update_raw on a used sentence; boundaries and tags are then set
    /// through boundaries_mut / reset_tags / tags_mut. Whatever a parser remembers about the
    /// string it parsed must not matter once the caller has replaced the annotations.
    pub fn to_sentence(&self) -> Result<Sentence<'static, 'static>, String> {
        let route = (self.chars.len() + self.n_tags + self.labels.iter().map(|&l| l as usize).sum::<usize>()) % 4;
        self.to_sentence_via(route as u8)
    }

    pub fn to_sentence_via(&self, route: u8) -> Result<Sentence<'static, 'static>, String> {
        let bare = || RefSentence {
            chars: self.chars.clone(),
            labels: self.labels.iter().map(|&l| if l == UNK { NB } else { l }).collect(),
            tags: vec![vec![]; self.chars.len()],
            n_tags: 0,
        };
        let mut s = match route {
            1 => Sentence::from_tokenized(&ref_write_tokenized(&bare())).map_err(|e| format!("from_tokenized (untagged rendering): {e}"))?,
            2 => Sentence::from_partial_annotation(&ref_write_partial(&bare())).map_err(|e| format!("from_partial_annotation (untagged rendering): {e}"))?,
            3 => {
                let mut s = Sentence::from_tokenized("zz/Q1/Q2 y/R1 x\\/x/S").map_err(|e| e.to_string())?;
                s.update_raw(self.text()).map_err(|e| format!("update_raw: {e}"))?;
                s
            }
            _ => Sentence::from_raw(self.text()).map_err(|e| format!("from_raw: {e}"))?,
        };
        if s.as_raw_text() != self.text() {
            return Err(format!("route {route}: the sentence holds {:?} instead of {:?}", s.as_raw_text(), self.text()));
        }
        for (b, &l) in s.boundaries_mut().iter_mut().zip(&self.labels) {
            *b = boundary_of(l);
        }
        s.reset_tags(self.n_tags);
        let flat = self.flat_tags();
        // tags are Cow<str>: every third one is handed over borrowed (as the tags a predictor
        // assigns are, or string literals), the others owned
        for (k, (slot, t)) in s.tags_mut().iter_mut().zip(flat).enumerate() {
            *slot = t.map(|t| if (k + route as usize) % 3 == 0 { std::borrow::Cow::Borrowed(intern(&t)) } else { std::borrow::Cow::Owned(t) });
        }
        Ok(s)
    }
}

/// Gives a string the 'static lifetime a borrowed tag needs. Tags come from small pools, so the
/// per-thread table stays small (strings above 64 KiB are shared through one slot).
fn intern(t: &str) -> &'static str {
    use std::cell::RefCell;
    use std::collections::HashSet;
    thread_local! {
        static TABLE: RefCell<HashSet<&'static str>> = RefCell::new(HashSet::new());
    }
    TABLE.with(|tb| {
        let mut tb = tb.borrow_mut();
        if let Some(x) = tb.get(t) {
            return *x;
        }
        if tb.len() > 200_000 {
            // never reached by the pools in use; keeps the leak bounded in any case
            tb.clear();
        }
        let leaked: &'static str = Box::leak(t.to_string().into_boxed_str());
        tb.insert(leaked);
        leaked
    })
}

/// Observed content of a real sentence in the same shape.
pub fn observe_sentence(s: &Sentence) -> RefSentence {
    let chars: Vec<char> = s.as_raw_text().chars().collect();
    let n_tags = s.n_tags();
    let flat: Vec<Option<String>> = s
        .tags()
        .iter()
        .map(|t| t.as_ref().map(|c| c.to_string()))
        .collect();
    let mut tags = vec![];
    for i in 0..chars.len() {
        let row: Vec<Option<String>> = (0..n_tags)
            .map(|j| flat.get(i * n_tags + j).cloned().flatten())
            .collect();
        tags.push(row);
    }
    RefSentence {
        chars,
        labels: labels_of(s),
        tags,
        n_tags,
    }
}

fn trim_trailing_none(v: &[Option<String>]) -> &[Option<String>] {
    let mut n = v.len();
    while n > 0 && v[n - 1].is_none() {
        n -= 1;
    }
    &v[..n]
}

/// Tag row of a character padded/truncated to n_tags then trimmed of trailing absents.
pub fn trimmed_row(row: &[Option<String>], n_tags: usize) -> Vec<Option<String>> {
    let mut r: Vec<Option<String>> = (0..n_tags).map(|j| row.get(j).cloned().flatten()).collect();
    while r.last().map_or(false, |t| t.is_none()) {
        r.pop();
    }
    r
}

fn esc_tokenized(out: &mut String, s: &str) {
    for c in s.chars() {
        if c == ' ' || c == '\\' || c == '/' {
            out.push('\\');
        }
        out.push(c);
    }
}

/// Reference tokenized writer: tokens (RefTokens) separated by one space, each followed by
/// `/tag` for the tags of its last character up to the last present one.
pub fn ref_write_tokenized(s: &RefSentence) -> String {
    let mut out = String::new();
    for (i, tok) in ref_tokens(&s.labels).iter().enumerate() {
        if i > 0 {
            out.push(' ');
        }
        let surface: String = s.chars[tok.start..tok.end].iter().collect();
        esc_tokenized(&mut out, &surface);
        let row = trimmed_row(&s.tags[tok.end - 1], s.n_tags);
        for t in row {
            out.push('/');
            if let Some(t) = t {
                esc_tokenized(&mut out, &t);
            }
        }
    }
    out
}

#[derive(Clone, Debug, PartialEq, Eq)]
pub enum RefParse {
    Ok(RefSentence),
    Err,
    /// The documentation does not determine the outcome (e.g. a lone trailing backslash).
    Unspecified,
}

/// Reference parser of the tokenized format.
pub fn ref_parse_tokenized(input: &str) -> RefParse {
    if input.is_empty() {
        return RefParse::Err;
    }
    if input.contains('\0') {
        return RefParse::Err;
    }
    // lexical pass: (char, escaped)
    let mut items: Vec<(char, bool)> = vec![];
    let mut it = input.chars();
    while let Some(c) = it.next() {
        if c == '\\' {
            match it.next() {
                Some(n) => items.push((n, true)),
                None => return RefParse::Unspecified,
            }
        } else {
            items.push((c, false));
        }
    }
    // split into tokens at unescaped spaces
    let mut tokens: Vec<Vec<(char, bool)>> = vec![vec![]];
    for &(c, e) in &items {
        if c == ' ' && !e {
            tokens.push(vec![]);
        } else {
            tokens.last_mut().unwrap().push((c, e));
        }
    }
    let mut chars = vec![];
    let mut labels = vec![];
    let mut tags: Vec<Vec<Option<String>>> = vec![];
    for tok in &tokens {
        // split at unescaped slashes
        let mut parts: Vec<String> = vec![String::new()];
        for &(c, e) in tok {
            if c == '/' && !e {
                parts.push(String::new());
            } else {
                parts.last_mut().unwrap().push(c);
            }
        }
        let surface: Vec<char> = parts[0].chars().collect();
        if surface.is_empty() {
            // empty token (leading/trailing/double space) or a slash that does not follow a
            // character
            return RefParse::Err;
        }
        for (i, &c) in surface.iter().enumerate() {
            if !chars.is_empty() {
                labels.push(if i == 0 { WB } else { NB });
            }
            chars.push(c);
            tags.push(vec![]);
        }
        let row: Vec<Option<String>> = parts[1..]
            .iter()
            .map(|t| if t.is_empty() { None } else { Some(t.clone()) })
            .collect();
        *tags.last_mut().unwrap() = row;
    }
    let n_tags = tags.iter().map(|t| t.len()).max().unwrap_or(0);
    RefParse::Ok(RefSentence {
        chars,
        labels,
        tags,
        n_tags,
    })
}

/// Reference writer of the partial annotation format (tags escaped so that the documented
/// parser reads them back).
pub fn ref_write_partial(s: &RefSentence) -> String {
    let mut out = String::new();
    for (i, &c) in s.chars.iter().enumerate() {
        if i > 0 {
            out.push(match s.labels[i - 1] {
                NB => '-',
                WB => '|',
                _ => ' ',
            });
        }
        out.push(c);
        for t in trimmed_row(&s.tags[i], s.n_tags) {
            out.push('/');
            if let Some(t) = t {
                for ch in t.chars() {
                    if matches!(ch, ' ' | '\\' | '/' | '-' | '|') {
                        out.push('\\');
                    }
                    out.push(ch);
                }
            }
        }
    }
    out
}

/// Reference parser of the partial annotation format.
pub fn ref_parse_partial(input: &str) -> RefParse {
    if input.is_empty() {
        return RefParse::Err;
    }
    let cs: Vec<char> = input.chars().collect();
    let mut i = 0;
    let mut chars = vec![];
    let mut labels = vec![];
    let mut tags: Vec<Vec<Option<String>>> = vec![];
    let mut nul_in_tag = false;
    loop {
        // a character
        if i >= cs.len() {
            return RefParse::Err; // ends with a boundary symbol ("length is even")
        }
        if cs[i] == '\0' {
            return RefParse::Err;
        }
        chars.push(cs[i]);
        tags.push(vec![]);
        i += 1;
        // zero or more tags
        while i < cs.len() && cs[i] == '/' {
            i += 1;
            let mut tag = String::new();
            while i < cs.len() {
                let c = cs[i];
                if c == '\\' {
                    if i + 1 < cs.len() {
                        tag.push(cs[i + 1]);
                        if cs[i + 1] == '\0' {
                            nul_in_tag = true;
                        }
                        i += 2;
                        continue;
                    } else {
                        return RefParse::Unspecified; // lone trailing backslash
                    }
                }
                if matches!(c, '/' | ' ' | '-' | '|') {
                    break;
                }
                if c == '\0' {
                    nul_in_tag = true;
                }
                tag.push(c);
                i += 1;
            }
            tags.last_mut()
                .unwrap()
                .push(if tag.is_empty() { None } else { Some(tag) });
        }
        if i >= cs.len() {
            break;
        }
        // boundary symbol
        match cs[i] {
            ' ' => labels.push(UNK),
            '-' => labels.push(NB),
            '|' => labels.push(WB),
            '\\' => {
                // a backslash where a boundary symbol is expected: only a lone trailing one is
                // left open by the documentation
                if i + 1 == cs.len() {
                    return RefParse::Unspecified;
                }
                return RefParse::Err;
            }
            _ => return RefParse::Err,
        }
        i += 1;
    }
    if nul_in_tag {
        // NUL inside a tag: the documentation only forbids NUL in the text
        return RefParse::Unspecified;
    }
    let n_tags = tags.iter().map(|t| t.len()).max().unwrap_or(0);
    RefParse::Ok(RefSentence {
        chars,
        labels,
        tags,
        n_tags,
    })
}

/// Compares an observed real sentence with the reference, treating trailing absent tags per
/// character as equal when `up_to_trailing` is set.
pub fn same_annotation(a: &RefSentence, b: &RefSentence, up_to_trailing: bool) -> Result<(), String> {
    if a.chars != b.chars {
        return Err(format!("text differs: {:?} vs {:?}", a.text(), b.text()));
    }
    if a.labels != b.labels {
        return Err(format!("labels differ: {:?} vs {:?}", a.labels, b.labels));
    }
    if !up_to_trailing && a.n_tags != b.n_tags {
        return Err(format!("n_tags differs: {} vs {}", a.n_tags, b.n_tags));
    }
    for i in 0..a.chars.len() {
        let ra = trimmed_row(&a.tags[i], a.n_tags);
        let rb = trimmed_row(&b.tags[i], b.n_tags);
        if trim_trailing_none(&ra) != trim_trailing_none(&rb) {
            return Err(format!("tags of character {i} differ: {:?} vs {:?}", ra, rb));
        }
    }
    Ok(())
}
