//! The harness's own reader/writer of the KyTea binary model layout, a generator of structured
//! KyTea models and the reference conversion (RefKytea) written from the statement of C17.
//!
//! The reader/writer pair is validated against `resources/kytea-model.bin`: parse with this
//! reader, re-emit with this writer, byte-identical.

use proptest::collection::vec;
use proptest::prelude::*;
use serde::{Deserialize, Serialize};

use crate::gen::pick;
use crate::mirror::{ModelSpec, NgramSpec, WordSpec};

// ------------------------------------------------------------------------------------------
// file structure

#[derive(Clone, Debug, PartialEq, Serialize, Deserialize)]
pub struct KFile {
    pub tag_line: Vec<u8>, // including the trailing '\n'
    pub do_ws: u8,
    pub do_tags: u8,
    pub n_tags: u32,
    pub char_w: u8,
    pub char_n: u8,
    pub type_w: u8,
    pub type_n: u8,
    pub dict_n: u8,
    pub bias: u8,
    pub epsilon_bits: u64,
    pub solver_type: u8,
    pub char_map: String, // written NUL-terminated
    pub wordseg: Option<KLinear>,
    pub globals: Vec<(Vec<Vec<u16>>, Option<KLinear>)>,
    pub dict: KDict<KModelTagEntry>,
    pub subword: KDict<KProbTagEntry>,
    /// bytes after the last section vaporetto reads (real KyTea files carry more sections)
    #[serde(default)]
    pub trailer: Vec<u8>,
}

#[derive(Clone, Debug, PartialEq, Serialize, Deserialize)]
pub struct KLinear {
    pub solver_type: u8,
    pub labels: Vec<i32>,
    pub bias: u8,
    pub multiplier_bits: u64,
    pub lookup: Option<KLookup>,
}

#[derive(Clone, Debug, PartialEq, Serialize, Deserialize)]
pub struct KLookup {
    pub char_dict: KDict<Vec<i16>>,
    pub type_dict: KDict<Vec<i16>>,
    pub self_dict: KDict<Vec<i16>>,
    pub dict_vec: Vec<i16>,
    pub biases: Vec<i16>,
    pub tag_dict_vec: Vec<i16>,
    pub tag_unk_vec: Vec<i16>,
}

#[derive(Clone, Debug, PartialEq, Serialize, Deserialize)]
pub struct KState {
    pub failure: u32,
    pub gotos: Vec<(u16, u32)>, // (1-based char index, next state), file order
    pub outputs: Vec<u32>,
    pub is_branch: u8,
}

#[derive(Clone, Debug, PartialEq, Serialize, Deserialize)]
pub struct KDict<T> {
    pub n_dicts: u8,
    /// empty = the dictionary is absent (n_states == 0)
    pub states: Vec<KState>,
    pub entries: Vec<T>,
}

impl<T> KDict<T> {
    pub fn absent(n_dicts: u8) -> Self {
        Self {
            n_dicts,
            states: vec![],
            entries: vec![],
        }
    }
}

#[derive(Clone, Debug, PartialEq, Serialize, Deserialize)]
pub struct KModelTagEntry {
    pub word: Vec<u16>,
    pub tags: Vec<Vec<(Vec<u16>, u8)>>, // per tag slot: (tag, in_dicts)
    pub in_dict: u8,
    pub tag_models: Vec<Option<KLinear>>,
}

#[derive(Clone, Debug, PartialEq, Serialize, Deserialize)]
pub struct KProbTagEntry {
    pub word: Vec<u16>,
    pub tags: Vec<Vec<(Vec<u16>, u64)>>, // (tag, probability bits)
}

// ------------------------------------------------------------------------------------------
// writer

struct W(Vec<u8>);
impl W {
    fn u8(&mut self, v: u8) {
        self.0.push(v)
    }
    fn u16(&mut self, v: u16) {
        self.0.extend_from_slice(&v.to_le_bytes())
    }
    fn i16(&mut self, v: i16) {
        self.0.extend_from_slice(&v.to_le_bytes())
    }
    fn u32(&mut self, v: u32) {
        self.0.extend_from_slice(&v.to_le_bytes())
    }
    fn i32(&mut self, v: i32) {
        self.0.extend_from_slice(&v.to_le_bytes())
    }
    fn u64(&mut self, v: u64) {
        self.0.extend_from_slice(&v.to_le_bytes())
    }
    fn kstr(&mut self, s: &[u16]) {
        self.u32(s.len() as u32);
        for &c in s {
            self.u16(c);
        }
    }
    fn i16vec(&mut self, v: &[i16]) {
        self.u32(v.len() as u32);
        for &x in v {
            self.i16(x);
        }
    }
    fn dict<T>(&mut self, d: &KDict<T>, n_tags: u32, entry: &dyn Fn(&mut W, &T, u32)) {
        self.u8(d.n_dicts);
        self.u32(d.states.len() as u32);
        if d.states.is_empty() {
            return;
        }
        for st in &d.states {
            self.u32(st.failure);
            self.u32(st.gotos.len() as u32);
            for &(c, n) in &st.gotos {
                self.u16(c);
                self.u32(n);
            }
            self.u32(st.outputs.len() as u32);
            for &o in &st.outputs {
                self.u32(o);
            }
            self.u8(st.is_branch);
        }
        self.u32(d.entries.len() as u32);
        for e in &d.entries {
            entry(self, e, n_tags);
        }
    }
    fn linear(&mut self, m: &Option<KLinear>) {
        match m {
            None => self.u32(0),
            Some(m) => {
                self.u32(m.labels.len() as u32);
                self.u8(m.solver_type);
                for &l in &m.labels {
                    self.i32(l);
                }
                self.u8(m.bias);
                self.u64(m.multiplier_bits);
                match &m.lookup {
                    None => self.u8(0),
                    Some(l) => {
                        self.u8(1);
                        let e = |w: &mut W, v: &Vec<i16>, _: u32| w.i16vec(v);
                        self.dict(&l.char_dict, 0, &e);
                        self.dict(&l.type_dict, 0, &e);
                        self.dict(&l.self_dict, 0, &e);
                        self.i16vec(&l.dict_vec);
                        self.i16vec(&l.biases);
                        self.i16vec(&l.tag_dict_vec);
                        self.i16vec(&l.tag_unk_vec);
                    }
                }
            }
        }
    }
}

impl KFile {
    pub fn to_bytes(&self) -> Vec<u8> {
        let mut w = W(vec![]);
        w.0.extend_from_slice(&self.tag_line);
        w.u8(self.do_ws);
        w.u8(self.do_tags);
        w.u32(self.n_tags);
        w.u8(self.char_w);
        w.u8(self.char_n);
        w.u8(self.type_w);
        w.u8(self.type_n);
        w.u8(self.dict_n);
        w.u8(self.bias);
        w.u64(self.epsilon_bits);
        w.u8(self.solver_type);
        w.0.extend_from_slice(self.char_map.as_bytes());
        w.u8(0);
        w.linear(&self.wordseg);
        for (tags, m) in &self.globals {
            w.u32(tags.len() as u32);
            for t in tags {
                w.kstr(t);
            }
            w.linear(m);
        }
        w.dict(&self.dict, self.n_tags, &|w: &mut W, e: &KModelTagEntry, _n| {
            w.kstr(&e.word);
            for slot in &e.tags {
                w.u32(slot.len() as u32);
                for (t, d) in slot {
                    w.kstr(t);
                    w.u8(*d);
                }
            }
            w.u8(e.in_dict);
            for m in &e.tag_models {
                w.linear(m);
            }
        });
        w.dict(&self.subword, self.n_tags, &|w: &mut W, e: &KProbTagEntry, _n| {
            w.kstr(&e.word);
            for slot in &e.tags {
                w.u32(slot.len() as u32);
                for (t, p) in slot {
                    w.kstr(t);
                    w.u64(*p);
                }
            }
        });
        w.0.extend_from_slice(&self.trailer);
        w.0
    }
}

// ------------------------------------------------------------------------------------------
// reader (harness-owned; used for the self-test and for reading the sample file)

struct R<'a> {
    b: &'a [u8],
    p: usize,
}

type RR<T> = Result<T, String>;

impl<'a> R<'a> {
    fn take(&mut self, n: usize) -> RR<&'a [u8]> {
        if self.p + n > self.b.len() {
            return Err(format!("eof at {}", self.p));
        }
        let s = &self.b[self.p..self.p + n];
        self.p += n;
        Ok(s)
    }
    fn u8(&mut self) -> RR<u8> {
        Ok(self.take(1)?[0])
    }
    fn u16(&mut self) -> RR<u16> {
        Ok(u16::from_le_bytes(self.take(2)?.try_into().unwrap()))
    }
    fn i16(&mut self) -> RR<i16> {
        Ok(i16::from_le_bytes(self.take(2)?.try_into().unwrap()))
    }
    fn u32(&mut self) -> RR<u32> {
        Ok(u32::from_le_bytes(self.take(4)?.try_into().unwrap()))
    }
    fn i32(&mut self) -> RR<i32> {
        Ok(i32::from_le_bytes(self.take(4)?.try_into().unwrap()))
    }
    fn u64(&mut self) -> RR<u64> {
        Ok(u64::from_le_bytes(self.take(8)?.try_into().unwrap()))
    }
    fn kstr(&mut self) -> RR<Vec<u16>> {
        let n = self.u32()?;
        (0..n).map(|_| self.u16()).collect()
    }
    fn i16vec(&mut self) -> RR<Vec<i16>> {
        let n = self.u32()?;
        (0..n).map(|_| self.i16()).collect()
    }
    fn dict<T>(&mut self, n_tags: u32, entry: &dyn Fn(&mut R<'a>, u32) -> RR<T>) -> RR<KDict<T>> {
        let n_dicts = self.u8()?;
        let n_states = self.u32()?;
        if n_states == 0 {
            return Ok(KDict::absent(n_dicts));
        }
        let mut states = vec![];
        for _ in 0..n_states {
            let failure = self.u32()?;
            let ng = self.u32()?;
            let mut gotos = vec![];
            for _ in 0..ng {
                gotos.push((self.u16()?, self.u32()?));
            }
            let no = self.u32()?;
            let mut outputs = vec![];
            for _ in 0..no {
                outputs.push(self.u32()?);
            }
            let is_branch = self.u8()?;
            states.push(KState {
                failure,
                gotos,
                outputs,
                is_branch,
            });
        }
        let ne = self.u32()?;
        let mut entries = vec![];
        for _ in 0..ne {
            entries.push(entry(self, n_tags)?);
        }
        Ok(KDict {
            n_dicts,
            states,
            entries,
        })
    }
    fn linear(&mut self) -> RR<Option<KLinear>> {
        let nc = self.u32()?;
        if nc == 0 {
            return Ok(None);
        }
        let solver_type = self.u8()?;
        let labels = (0..nc).map(|_| self.i32()).collect::<RR<Vec<_>>>()?;
        let bias = self.u8()?;
        let multiplier_bits = self.u64()?;
        let active = self.u8()?;
        let lookup = if active == 0 {
            None
        } else {
            let e = |r: &mut R<'a>, _: u32| r.i16vec();
            Some(KLookup {
                char_dict: self.dict(0, &e)?,
                type_dict: self.dict(0, &e)?,
                self_dict: self.dict(0, &e)?,
                dict_vec: self.i16vec()?,
                biases: self.i16vec()?,
                tag_dict_vec: self.i16vec()?,
                tag_unk_vec: self.i16vec()?,
            })
        };
        Ok(Some(KLinear {
            solver_type,
            labels,
            bias,
            multiplier_bits,
            lookup,
        }))
    }
}

impl KFile {
    pub fn parse(bytes: &[u8]) -> RR<KFile> {
        let mut r = R { b: bytes, p: 0 };
        let nl = bytes.iter().position(|&b| b == b'\n').ok_or("no tag line")?;
        let tag_line = r.take(nl + 1)?.to_vec();
        let (do_ws, do_tags, n_tags) = (r.u8()?, r.u8()?, r.u32()?);
        let (char_w, char_n, type_w, type_n, dict_n, bias) = (r.u8()?, r.u8()?, r.u8()?, r.u8()?, r.u8()?, r.u8()?);
        let epsilon_bits = r.u64()?;
        let solver_type = r.u8()?;
        let z = bytes[r.p..].iter().position(|&b| b == 0).ok_or("unterminated char map")?;
        let char_map = String::from_utf8(r.take(z)?.to_vec()).map_err(|e| e.to_string())?;
        r.take(1)?;
        let wordseg = r.linear()?;
        let mut globals = vec![];
        for _ in 0..n_tags {
            let n = r.u32()?;
            let tags = (0..n).map(|_| r.kstr()).collect::<RR<Vec<_>>>()?;
            globals.push((tags, r.linear()?));
        }
        let dict = r.dict(n_tags, &|r: &mut R, n_tags: u32| {
            let word = r.kstr()?;
            let mut tags = vec![];
            for _ in 0..n_tags {
                let n = r.u32()?;
                let mut slot = vec![];
                for _ in 0..n {
                    slot.push((r.kstr()?, r.u8()?));
                }
                tags.push(slot);
            }
            let in_dict = r.u8()?;
            let mut tag_models = vec![];
            for _ in 0..n_tags {
                tag_models.push(r.linear()?);
            }
            Ok(KModelTagEntry {
                word,
                tags,
                in_dict,
                tag_models,
            })
        })?;
        let subword = r.dict(n_tags, &|r: &mut R, n_tags: u32| {
            let word = r.kstr()?;
            let mut tags = vec![];
            for _ in 0..n_tags {
                let n = r.u32()?;
                let mut slot = vec![];
                for _ in 0..n {
                    slot.push((r.kstr()?, r.u64()?));
                }
                tags.push(slot);
            }
            Ok(KProbTagEntry { word, tags })
        })?;
        let trailer = bytes[r.p..].to_vec();
        Ok(KFile {
            tag_line,
            do_ws,
            do_tags,
            n_tags,
            char_w,
            char_n,
            type_w,
            type_n,
            dict_n,
            bias,
            epsilon_bits,
            solver_type,
            char_map,
            wordseg,
            globals,
            dict,
            subword,
            trailer,
        })
    }
}

/// Harness-only self-test against the sample file of the repository.
pub fn self_test() -> Result<(), String> {
    let bytes = std::fs::read("/repo/resources/kytea-model.bin")
        .map_err(|e| format!("cannot read /repo/resources/kytea-model.bin: {e}"))?;
    let f = KFile::parse(&bytes).map_err(|e| format!("harness KyTea reader fails on the sample: {e}"))?;
    if f.to_bytes() != bytes {
        return Err("harness KyTea writer does not reproduce the sample file".into());
    }
    Ok(())
}

// ------------------------------------------------------------------------------------------
// reference conversion (RefKytea)

/// All (word, entry) pairs of a trie, found by following gotos from the root.
fn dump<T>(d: &KDict<T>, char_map: &[char]) -> Result<Vec<(Vec<char>, usize)>, String> {
    let mut out = vec![];
    if d.states.is_empty() {
        return Ok(out);
    }
    let mut stack: Vec<(usize, Vec<char>)> = vec![(0, vec![])];
    while let Some((i, word)) = stack.pop() {
        let st = d.states.get(i).ok_or("goto to a missing state")?;
        if st.is_branch != 0 {
            out.push((word.clone(), *st.outputs.first().ok_or("branch state without output")? as usize));
        }
        for &(c, n) in &st.gotos {
            let ch = *char_map.get(c as usize - 1).ok_or("char index outside the map")?;
            let mut w = word.clone();
            w.push(ch);
            stack.push((n as usize, w));
        }
    }
    Ok(out)
}

#[derive(Clone, Debug, Default)]
pub struct KyteaStats {
    pub word_in_two_dicts: bool,
    pub type_ngrams: usize,
    pub skipped_type_ngrams: usize,
    pub cut_entries: bool,
}

/// The model the file encodes, as stated by C17. Collections sorted for comparison.
pub fn reference_model(f: &KFile) -> Result<(ModelSpec, KyteaStats), String> {
    let mut st = KyteaStats::default();
    let char_map: Vec<char> = f.char_map.chars().collect();
    let ws = f.wordseg.as_ref().ok_or("no word segmentation model")?;
    let lk = ws.lookup.as_ref().ok_or("no lookup")?;
    let mut spec = ModelSpec {
        bias: *lk.biases.first().ok_or("no bias")? as i32,
        char_window: f.char_w,
        type_window: f.type_w,
        ..ModelSpec::default()
    };
    for (word, e) in dump(&lk.char_dict, &char_map)? {
        let n = 2 * f.char_w as usize + 1 - word.len();
        let v = &lk.char_dict.entries[e];
        if v.len() > n {
            st.cut_entries = true;
        }
        spec.char_ngrams.push(NgramSpec {
            ngram: word.iter().collect(),
            weights: v[..n].iter().map(|&w| w as i32).collect(),
        });
    }
    'outer: for (word, e) in dump(&lk.type_dict, &char_map)? {
        let n = 2 * f.type_w as usize + 1 - word.len();
        let mut codes = vec![];
        for c in &word {
            codes.push(match c {
                'D' => 1u8,
                'R' => 2,
                'H' => 3,
                'T' => 4,
                'K' => 5,
                'O' => 6,
                '\u{4}' => {
                    st.skipped_type_ngrams += 1;
                    continue 'outer;
                }
                other => return Err(format!("unsupported type letter {other:?}")),
            });
        }
        st.type_ngrams += 1;
        let v = &lk.type_dict.entries[e];
        spec.type_ngrams.push(NgramSpec {
            ngram: codes,
            weights: v[..n].iter().map(|&w| w as i32).collect(),
        });
    }
    for (word, e) in dump(&f.dict, &char_map)? {
        let entry = &f.dict.entries[e];
        let idx = word.len().min(f.dict_n as usize) - 1;
        let (mut l, mut i, mut r) = (0i32, 0i32, 0i32);
        let mut members = 0;
        for j in 0..f.dict.n_dicts as usize {
            if (entry.in_dict >> j) & 1 == 1 {
                members += 1;
                let off = 3 * f.dict_n as usize * j + 3 * idx;
                l += lk.dict_vec[off] as i32;
                i += lk.dict_vec[off + 1] as i32;
                r += lk.dict_vec[off + 2] as i32;
            }
        }
        if members >= 2 {
            st.word_in_two_dicts = true;
        }
        let mut weights = vec![i; word.len() + 1];
        weights[0] = l;
        *weights.last_mut().unwrap() = r;
        spec.dict.push(WordSpec {
            word: word.iter().collect(),
            weights,
            comment: String::new(),
        });
    }
    canonical(&mut spec);
    Ok((spec, st))
}

pub fn canonical(spec: &mut ModelSpec) {
    spec.char_ngrams.sort_by(|a, b| a.ngram.cmp(&b.ngram));
    spec.type_ngrams.sort_by(|a, b| a.ngram.cmp(&b.ngram));
    spec.dict.sort_by(|a, b| a.word.cmp(&b.word));
}

// ------------------------------------------------------------------------------------------
// generator

#[derive(Clone, Debug)]
pub struct RawKytea {
    pub n_tags: u32,
    pub char_w: u8,
    pub type_w: u8,
    pub dict_n: u8,
    pub n_dicts: u8,
    pub char_ngrams: Vec<(Vec<u16>, Vec<i16>, u8)>, // chars, weights, extra trailing weights
    pub type_ngrams: Vec<(Vec<u16>, Vec<i16>, u8)>,
    pub words: Vec<(Vec<u16>, u8)>, // chars, membership mask
    pub dict_vec: Vec<i16>,
    pub biases: Vec<i16>,
    pub shuffle: Vec<u16>,
    pub global_models: Vec<u8>,  // per tag slot: 0 none, 1 linear without lookup, 2 linear with lookup
    pub subword: bool,
    pub word_tag_models: bool,
    pub texts: Vec<Vec<u16>>,
}

fn w16() -> impl Strategy<Value = i16> {
    prop_oneof![6 => -200i16..=200, 2 => any::<i16>(), 1 => Just(i16::MAX), 1 => Just(i16::MIN), 1 => Just(0i16)]
}

pub fn raw_kytea() -> impl Strategy<Value = RawKytea> {
    (
        (
            0u32..=3,
            // (now and then a window whose double does not fit into a byte)
            prop_oneof![12 => 1u8..=5, 1 => prop_oneof![Just(127u8), Just(128u8), Just(129u8), Just(200u8), Just(255u8)]],
            prop_oneof![12 => 1u8..=5, 1 => prop_oneof![Just(127u8), Just(128u8), Just(130u8), Just(255u8)]],
            1u8..=4,
            0u8..=8,
        ),
        // (now and then a model without any character n-gram, or without any type n-gram)
        prop_oneof![9 => vec((vec(any::<u16>(), 1..=5), vec(w16(), 12), 0u8..3), 1..=15), 1 => Just(vec![])],
        prop_oneof![9 => vec((vec(any::<u16>(), 1..=4), vec(w16(), 12), 0u8..3), 1..=10), 1 => Just(vec![])],
        vec((vec(any::<u16>(), 1..=6), any::<u8>()), 0..=8),
        vec(w16(), 3 * 4 * 8 + 4),
        vec(w16(), 1..=3),
        vec(any::<u16>(), 64),
        vec(0u8..3, 3),
        (any::<bool>(), any::<bool>()),
        vec(vec(any::<u16>(), 1..=16), 1..=3),
    )
        .prop_map(
            |(
                (n_tags, char_w, type_w, dict_n, n_dicts),
                char_ngrams,
                type_ngrams,
                words,
                dict_vec,
                biases,
                shuffle,
                global_models,
                (subword, word_tag_models),
                texts,
            )| RawKytea {
                n_tags,
                char_w,
                type_w,
                dict_n,
                n_dicts,
                char_ngrams,
                type_ngrams,
                words,
                dict_vec,
                biases,
                shuffle,
                global_models,
                subword,
                word_tag_models,
                texts,
            },
        )
}

const TEXT_CHARS: &[char] = &['a', 'b', '1', 'あ', 'の', 'ア', 'ー', '火', '星', '𠀋', 'é', '。'];
const TYPE_LETTERS: &[char] = &['D', 'R', 'H', 'T', 'K', 'O'];

fn root_only<T>(n_dicts: u8) -> KDict<T> {
    KDict {
        n_dicts,
        states: vec![KState { failure: 0, gotos: vec![], outputs: vec![], is_branch: 0 }],
        entries: vec![],
    }
}

/// Builds a trie over `words` with shuffled state numbers (state 0 stays the root), arbitrary
/// failure links and extra suffix outputs.
fn build_trie<T: Clone>(
    n_dicts: u8,
    words: &[(Vec<u16>, T)],
    shuffle: &[u16],
) -> KDict<T> {
    if words.is_empty() {
        // "nothing of this kind" has two encodings: no dictionary at all, and a trie that
        // consists of its root and holds no entry
        if shuffle.first().copied().unwrap_or(0) & 2 == 0 {
            return KDict::absent(n_dicts);
        }
        return root_only(n_dicts);
    }
    // natural numbering first
    struct Node {
        gotos: Vec<(u16, usize)>,
        entry: Option<usize>,
    }
    let mut nodes = vec![Node { gotos: vec![], entry: None }];
    let mut entries = vec![];
    for (w, e) in words {
        let mut cur = 0;
        for &c in w {
            cur = match nodes[cur].gotos.iter().find(|g| g.0 == c) {
                Some(g) => g.1,
                None => {
                    nodes.push(Node { gotos: vec![], entry: None });
                    let id = nodes.len() - 1;
                    nodes[cur].gotos.push((c, id));
                    id
                }
            };
        }
        if nodes[cur].entry.is_none() {
            entries.push(e.clone());
            nodes[cur].entry = Some(entries.len() - 1);
        }
    }
    // permutation of the non-root states
    let n = nodes.len();
    let mut perm: Vec<usize> = (0..n).collect();
    for i in (2..n).rev() {
        let j = 1 + pick(shuffle[i % shuffle.len()], i);
        perm.swap(i, j);
    }
    let mut states: Vec<Option<KState>> = vec![None; n];
    for (old, node) in nodes.iter().enumerate() {
        let mut gotos: Vec<(u16, u32)> = node.gotos.iter().map(|&(c, t)| (c, perm[t] as u32)).collect();
        if shuffle[old % shuffle.len()] & 1 == 1 {
            gotos.reverse(); // goto order in the file is arbitrary
        }
        let mut outputs = vec![];
        if let Some(e) = node.entry {
            outputs.push(e as u32);
            if shuffle[(old + 1) % shuffle.len()] & 3 == 0 && entries.len() > 1 {
                outputs.push(((e + 1) % entries.len()) as u32); // a "suffix output"
            }
        }
        states[perm[old]] = Some(KState {
            failure: (shuffle[(old + 2) % shuffle.len()] as usize % n) as u32,
            gotos,
            outputs,
            is_branch: if node.entry.is_some() { 1 + (shuffle[old % shuffle.len()] as u8 & 2) } else { 0 },
        });
    }
    KDict {
        n_dicts,
        states: states.into_iter().map(|s| s.unwrap()).collect(),
        entries,
    }
}

#[derive(Clone, Debug, Serialize, Deserialize)]
pub struct KyteaCase {
    pub file: KFile,
    pub texts: Vec<String>,
}

pub fn resolve_kytea(raw: &RawKytea) -> KyteaCase {
    // character map: type letters first (as in real files), then text characters, then the
    // tolerated 0x04 letter
    // (one file in three has the map in another order, ending in the text character most n-grams
    // and words use: the last number of the map is a valid character number)
    let mut char_map: Vec<char> = TYPE_LETTERS.to_vec();
    if raw.shuffle.get(1).copied().unwrap_or(0) % 3 == 1 {
        char_map.insert(0, '\u{4}');
        char_map.insert(0, 't');
        char_map.extend(TEXT_CHARS.iter().rev());
    } else {
        char_map.extend_from_slice(TEXT_CHARS);
        char_map.push('\u{4}');
        char_map.push('t'); // used by tag strings
    }
    let idx = |c: char| (char_map.iter().position(|&x| x == c).unwrap() + 1) as u16;
    let text_idx: Vec<u16> = TEXT_CHARS.iter().map(|&c| idx(c)).collect();
    let type_idx: Vec<u16> = TYPE_LETTERS.iter().map(|&c| idx(c)).collect();
    let four = idx('\u{4}');

    let mut cng: Vec<(Vec<u16>, Vec<i16>)> = vec![];
    for (cs, ws, extra) in &raw.char_ngrams {
        let mut w: Vec<u16> = cs.iter().map(|&i| text_idx[pick(i, text_idx.len().min(5))]).collect();
        w.truncate(2 * raw.char_w as usize);
        if cng.iter().any(|x| x.0 == w) {
            continue;
        }
        let n = 2 * raw.char_w as usize + 1 - w.len() + *extra as usize;
        cng.push((w, (0..n).map(|k| ws[k % ws.len()]).collect()));
    }
    let mut tng: Vec<(Vec<u16>, Vec<i16>)> = vec![];
    for (k, (cs, ws, extra)) in raw.type_ngrams.iter().enumerate() {
        let mut w: Vec<u16> = cs.iter().map(|&i| type_idx[pick(i, type_idx.len())]).collect();
        w.truncate(2 * raw.type_w as usize);
        if k % 7 == 6 {
            let p = w.len() - 1;
            w[p] = four; // an n-gram with the invalid letter 0x04: must be skipped
        }
        if tng.iter().any(|x| x.0 == w) {
            continue;
        }
        let n = 2 * raw.type_w as usize + 1 - w.len() + *extra as usize;
        tng.push((w, (0..n).map(|k| ws[k % ws.len()]).collect()));
    }
    let n_tags = raw.n_tags;
    let tagstr = |k: usize| vec![idx('t'), text_idx[k % text_idx.len()]];
    let plain_linear = |with_lookup: bool| KLinear {
        solver_type: 1,
        labels: vec![1, -1],
        bias: 1,
        multiplier_bits: 1.0f64.to_bits(),
        lookup: if with_lookup {
            Some(KLookup {
                char_dict: build_trie(0, &[(vec![text_idx[0]], vec![1i16, 2, 3])], &raw.shuffle),
                type_dict: KDict::absent(0),
                self_dict: KDict::absent(0),
                dict_vec: vec![],
                biases: vec![7],
                tag_dict_vec: vec![1],
                tag_unk_vec: vec![2, 3],
            })
        } else {
            None
        },
    };
    let mut words: Vec<(Vec<u16>, KModelTagEntry)> = vec![];
    for (k, (cs, mask)) in raw.words.iter().enumerate() {
        let w: Vec<u16> = cs.iter().map(|&i| text_idx[pick(i, text_idx.len().min(6))]).collect();
        if words.iter().any(|x| x.0 == w) {
            continue;
        }
        let mask = if raw.n_dicts == 0 { 0 } else { *mask & (((1u16 << raw.n_dicts) - 1) as u8) };
        let e = KModelTagEntry {
            word: w.clone(),
            tags: (0..n_tags).map(|t| (0..((k + t as usize) % 3)).map(|j| (tagstr(j + k), (j & 1) as u8)).collect()).collect(),
            in_dict: mask,
            tag_models: (0..n_tags)
                .map(|t| if raw.word_tag_models && (k + t as usize) % 2 == 0 { Some(plain_linear(t % 2 == 0)) } else { None })
                .collect(),
        };
        words.push((w, e));
    }
    let n_dict_vec = 3 * raw.dict_n as usize * raw.n_dicts as usize;
    let lookup = KLookup {
        // the converter needs both n-gram dictionaries to be there: a model without n-grams of
        // one kind has a trie of the root alone
        char_dict: if cng.is_empty() { root_only(0) } else { build_trie(0, &cng, &raw.shuffle) },
        type_dict: if tng.is_empty() { root_only(0) } else { build_trie(0, &tng, &raw.shuffle) },
        self_dict: KDict::absent(0),
        dict_vec: raw.dict_vec[..n_dict_vec.min(raw.dict_vec.len())].to_vec(),
        biases: raw.biases.clone(),
        tag_dict_vec: vec![],
        tag_unk_vec: vec![],
    };
    let file = KFile {
        tag_line: b"KyTea 0.4.0 B utf8\n".to_vec(),
        do_ws: 1,
        // the tagging flag says what the model was trained to do, not what the file holds: a
        // model trained with -notags on a tagged corpus has tag slots and the flag cleared
        do_tags: match raw.shuffle.first().copied().unwrap_or(0) % 4 {
            0 => 0,
            1 => 1,
            _ => (n_tags > 0) as u8,
        },
        n_tags,
        char_w: raw.char_w,
        char_n: 3,
        type_w: raw.type_w,
        type_n: 3,
        dict_n: raw.dict_n,
        bias: 1,
        epsilon_bits: f64::INFINITY.to_bits(),
        solver_type: 5,
        char_map: char_map.iter().collect(),
        wordseg: Some(KLinear {
            solver_type: 1,
            labels: vec![1, -1],
            bias: 1,
            multiplier_bits: 0.001f64.to_bits(),
            lookup: Some(lookup),
        }),
        globals: (0..n_tags as usize)
            .map(|t| {
                let tags: Vec<Vec<u16>> = (0..(t + 1)).map(|j| tagstr(j)).collect();
                let m = match raw.global_models[t % raw.global_models.len()] {
                    0 => None,
                    1 => Some(plain_linear(false)),
                    _ => Some(plain_linear(true)),
                };
                (tags, m)
            })
            .collect(),
        dict: build_trie(raw.n_dicts, &words, &raw.shuffle),
        subword: if raw.subword {
            let e = KProbTagEntry {
                word: vec![text_idx[1]],
                tags: (0..n_tags).map(|t| vec![(tagstr(t as usize), 0.5f64.to_bits())]).collect(),
            };
            build_trie(0, &[(vec![text_idx[1]], e)], &raw.shuffle)
        } else {
            KDict::absent(0)
        },
        trailer: vec![],
    };
    let texts = raw
        .texts
        .iter()
        .map(|t| t.iter().map(|&i| TEXT_CHARS[pick(i, TEXT_CHARS.len())]).collect())
        .collect();
    KyteaCase { file, texts }
}

pub fn kytea_case() -> impl Strategy<Value = KyteaCase> {
    raw_kytea().prop_map(|r| resolve_kytea(&r))
}
