//! Hand-written decoder from fuzzer bytes to the raw (index-based) generator structures, in the
//! spirit of `arbitrary::Unstructured` (no derive available offline). Decoding is total: when the
//! bytes run out, zeros are produced, which resolve to the smallest case. The raw structures are
//! resolved by the same pure functions the proptest strategies use.

use crate::gen::{RawModel, RawNgram, RawSentence, RawTagModel, RawTagNgram, RawTypeNgram, RawWord};
use crate::kytea::RawKytea;

pub struct Src<'a> {
    b: &'a [u8],
    p: usize,
}

impl<'a> Src<'a> {
    pub fn new(b: &'a [u8]) -> Self {
        Self { b, p: 0 }
    }
    pub fn u8(&mut self) -> u8 {
        let v = self.b.get(self.p).copied().unwrap_or(0);
        self.p += 1;
        v
    }
    pub fn u16(&mut self) -> u16 {
        u16::from_le_bytes([self.u8(), self.u8()])
    }
    pub fn bool(&mut self, one_in: u8) -> bool {
        self.u8() % one_in == 1 % one_in
    }
    /// value in lo..=hi
    pub fn range(&mut self, lo: usize, hi: usize) -> usize {
        lo + (self.u8() as usize) % (hi - lo + 1)
    }
    pub fn rest(&mut self) -> &'a [u8] {
        let r = &self.b[self.p.min(self.b.len())..];
        self.p = self.b.len();
        r
    }
    /// a weight in the signed 16-bit range with the extremes over-represented
    pub fn weight(&mut self) -> i32 {
        let k = self.u8();
        match k % 16 {
            0 => 32767,
            1 => -32767,
            2 => -32768,
            3 | 4 => 0,
            5 => 1,
            6 => -1,
            7..=9 => i16::from_le_bytes([self.u8(), self.u8()]) as i32,
            _ => (self.u8() as i32 % 201) - 100,
        }
    }
    pub fn w16(&mut self) -> i16 {
        self.weight().clamp(-32768, 32767) as i16
    }
    pub fn vec<T>(&mut self, lo: usize, hi: usize, mut f: impl FnMut(&mut Self) -> T) -> Vec<T> {
        let n = self.range(lo, hi);
        (0..n).map(|_| f(self)).collect()
    }
    pub fn window(&mut self) -> u8 {
        match self.u8() % 20 {
            0..=11 => 1 + (self.u8() % 3),
            12..=17 => [4u8, 5, 8, 9][(self.u8() % 4) as usize],
            _ => 16,
        }
    }
}

pub fn raw_model(s: &mut Src, tags: bool) -> RawModel {
    let palette = s.vec(2, 6, |s| (s.u16(), s.u16()));
    let char_window = s.window();
    let type_window = s.window();
    let ngrams = s.vec(0, 8, |s| RawNgram {
        chars: s.vec(1, 6, |s| s.u16()),
        suffix_of: if s.bool(3) { Some((s.u16(), 1 + s.u8() % 3)) } else { None },
        weights: (0..16).map(|_| s.weight()).collect(),
    });
    let type_ngrams = s.vec(0, 5, |s| RawTypeNgram {
        types: s.vec(1, 6, |s| 1 + s.u8() % 6),
        suffix_of: if s.bool(3) { Some((s.u16(), 1 + s.u8() % 3)) } else { None },
        weights: (0..16).map(|_| s.weight()).collect(),
    });
    let words = s.vec(0, 5, |s| RawWord {
        chars: if s.bool(5) { s.vec(5, 12, |s| s.u16()) } else { s.vec(1, 4, |s| s.u16()) },
        same_as_ngram: if s.bool(3) { Some((s.u16(), s.u8() % 3)) } else { None },
        weights: (0..16).map(|_| s.weight()).collect(),
    });
    let bias = s.weight();
    let small_weights = s.bool(5);
    let tag_models = if tags {
        s.vec(0, 3, |s| RawTagModel {
            token: s.vec(1, 3, |s| s.u16()),
            cats: s.vec(0, 3, |s| s.u8() % 5),
            bias: (0..12).map(|_| s.weight()).collect(),
            char_ngrams: s.vec(0, 4, |s| RawTagNgram {
                pat: s.vec(1, 4, |s| s.u16()),
                from_boundary: if s.bool(3) { Some(s.u16()) } else { None },
                rels: s.vec(1, 3, |s| (s.u8(), (0..12).map(|_| s.weight()).collect())),
            }),
            type_ngrams: s.vec(0, 3, |s| RawTagNgram {
                pat: s.vec(1, 4, |s| 1 + s.u8() % 6),
                from_boundary: if s.bool(3) { Some(s.u16()) } else { None },
                rels: s.vec(1, 3, |s| (s.u8(), (0..12).map(|_| s.weight()).collect())),
            }),
        })
    } else {
        vec![]
    };
    let texts = s.vec(1, 3, |s| s.vec(1, 24, |s| s.u16()));
    let force_score = if s.bool(3) { Some((s.u16(), s.u16(), (s.u8() % 3) as i8 - 1)) } else { None };
    RawModel {
        palette,
        hostile: true,
        char_window,
        type_window,
        ngrams,
        type_ngrams,
        words,
        bias,
        small_weights,
        tag_models,
        texts,
        force_score,
    }
}

pub fn raw_sentence(s: &mut Src, max_len: usize, label_kinds: u8) -> RawSentence {
    let palette = s.vec(2, 6, |s| (s.u16(), s.u16()));
    let text = s.vec(1, max_len, |s| s.u16());
    let labels = (0..max_len).map(|_| s.u8() % label_kinds).collect();
    let n_tags = s.u8() % 4;
    let tags = (0..max_len)
        .map(|_| (0..3).map(|_| if s.bool(2) { Some((s.u16(), s.u16())) } else { None }).collect())
        .collect();
    let run_mode = s.u8() % 4;
    RawSentence {
        palette,
        text,
        labels,
        n_tags,
        tags,
        run_mode,
    }
}

pub fn raw_kytea(s: &mut Src) -> RawKytea {
    RawKytea {
        n_tags: (s.u8() % 4) as u32,
        char_w: 1 + s.u8() % 5,
        type_w: 1 + s.u8() % 5,
        dict_n: 1 + s.u8() % 4,
        n_dicts: s.u8() % 9,
        char_ngrams: s.vec(1, 15, |s| (s.vec(1, 5, |s| s.u16()), (0..12).map(|_| s.w16()).collect(), s.u8() % 3)),
        type_ngrams: s.vec(1, 10, |s| (s.vec(1, 4, |s| s.u16()), (0..12).map(|_| s.w16()).collect(), s.u8() % 3)),
        words: s.vec(0, 8, |s| (s.vec(1, 6, |s| s.u16()), s.u8())),
        dict_vec: (0..(3 * 4 * 8 + 4)).map(|_| s.w16()).collect(),
        biases: s.vec(1, 3, |s| s.w16()),
        shuffle: (0..64).map(|_| s.u16()).collect(),
        global_models: (0..3).map(|_| s.u8() % 3).collect(),
        subword: s.bool(2),
        word_tag_models: s.bool(2),
        texts: s.vec(1, 3, |s| s.vec(1, 16, |s| s.u16())),
    }
}
