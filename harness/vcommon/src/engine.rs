//! Check engine: sharded proptest runners driven from a binary, exhaustive enumerations, replay,
//! corpus regression files, known findings, evidence and exit codes.

use std::collections::{BTreeMap, BTreeSet, HashSet};
use std::hash::{Hash, Hasher};
use std::panic::{self, AssertUnwindSafe};
use std::path::{Path, PathBuf};
use std::sync::atomic::{AtomicBool, Ordering};
use std::sync::Mutex;
use std::time::Instant;

use proptest::strategy::Strategy;
use proptest::test_runner::{Config, RngAlgorithm, TestCaseError, TestError, TestRng, TestRunner};
use serde::de::DeserializeOwned;
use serde::Serialize;
use serde_json::{json, Value};

pub const VERIF_DIR: &str = "/verif";

#[derive(Clone, Copy, Debug, PartialEq, Eq)]
pub enum Tier {
    Quick,
    Thorough,
}

impl Tier {
    pub fn name(self) -> &'static str {
        match self {
            Tier::Quick => "quick",
            Tier::Thorough => "thorough",
        }
    }
}

/// What a passing case tells the engine about itself.
#[derive(Clone, Debug, Default)]
pub struct Info {
    pub nontrivial: bool,
    pub classes: Vec<&'static str>,
}

impl Info {
    pub fn new(nontrivial: bool) -> Self {
        Self {
            nontrivial,
            classes: vec![],
        }
    }
    pub fn class(mut self, cond: bool, name: &'static str) -> Self {
        if cond {
            self.classes.push(name);
        }
        self
    }
}

/// A failing case.
#[derive(Clone, Debug)]
pub struct Fail {
    pub msg: String,
    /// Semantic signature used to match entries of known_findings.json.
    pub sig: Option<String>,
}

impl From<String> for Fail {
    fn from(msg: String) -> Self {
        Fail { msg, sig: None }
    }
}
impl From<&str> for Fail {
    fn from(msg: &str) -> Self {
        Fail {
            msg: msg.to_string(),
            sig: None,
        }
    }
}

pub fn fail_sig(sig: &str, msg: String) -> Fail {
    Fail {
        msg,
        sig: Some(sig.to_string()),
    }
}

pub type TestResult = Result<Info, Fail>;

#[macro_export]
macro_rules! ensure {
    ($cond:expr, $($arg:tt)*) => {
        if !($cond) {
            return Err($crate::engine::Fail::from(format!($($arg)*)));
        }
    };
}

#[macro_export]
macro_rules! ensure_eq {
    ($a:expr, $b:expr, $($arg:tt)*) => {
        {
            let (a, b) = (&$a, &$b);
            if a != b {
                return Err($crate::engine::Fail::from(format!(
                    "{}: left = {:?}, right = {:?}", format!($($arg)*), a, b)));
            }
        }
    };
}

// ------------------------------------------------------------------------------------------
// panic capture

thread_local! {
    static LAST_PANIC: std::cell::RefCell<Option<String>> = const { std::cell::RefCell::new(None) };
}

pub fn install_quiet_panic_hook() {
    panic::set_hook(Box::new(|info| {
        let msg = if let Some(s) = info.payload().downcast_ref::<&str>() {
            (*s).to_string()
        } else if let Some(s) = info.payload().downcast_ref::<String>() {
            s.clone()
        } else {
            "<non-string panic payload>".to_string()
        };
        let loc = info
            .location()
            .map(|l| format!("{}:{}", l.file(), l.line()))
            .unwrap_or_default();
        if msg.contains("unsafe precondition") || msg.contains("cannot unwind") {
            // the process is about to abort (e.g. a checked unsafe precondition): say why
            eprintln!("panicked (cannot unwind, aborting): {msg} @ {loc}");
        }
        LAST_PANIC.with(|p| *p.borrow_mut() = Some(format!("{msg} @ {loc}")));
    }));
}

/// Runs `f`, converting a panic into `Err(message)`.
pub fn catch<R>(f: impl FnOnce() -> R) -> Result<R, String> {
    match panic::catch_unwind(AssertUnwindSafe(f)) {
        Ok(r) => Ok(r),
        Err(_) => Err(LAST_PANIC
            .with(|p| p.borrow_mut().take())
            .unwrap_or_else(|| "panic (no message)".into())),
    }
}

/// Progress counter read by the watchdog: a check that makes no progress for a long time is a
/// hang (e.g. inside liblinear) and is reported as "could not decide" (exit 2), never as a
/// violation.
pub static HEARTBEAT: std::sync::atomic::AtomicU64 = std::sync::atomic::AtomicU64::new(0);

pub fn start_watchdog(limit_secs: u64) {
    static STARTED: AtomicBool = AtomicBool::new(false);
    if STARTED.swap(true, Ordering::SeqCst) {
        return;
    }
    std::thread::spawn(move || {
        let mut last = HEARTBEAT.load(Ordering::Relaxed);
        let mut idle = 0u64;
        loop {
            std::thread::sleep(std::time::Duration::from_secs(5));
            let now = HEARTBEAT.load(Ordering::Relaxed);
            if now == last {
                idle += 5;
                if idle >= limit_secs {
                    eprintln!("INCONCLUSIVE: watchdog: no case finished for {idle} s (hang); exiting 2");
                    std::process::exit(2);
                }
            } else {
                idle = 0;
                last = now;
            }
        }
    });
}

/// With VERIF_TRACE_CASES=<dir> every case is written to <dir>/current-<thread>.json before it
/// is executed, so that a supervisor can find the case that made the process abort (sanitizer
/// report, checked unsafe precondition) - such deaths cannot be caught in-process.
fn trace_case<C: Serialize>(sub: &str, case: &C) {
    static DIR: std::sync::OnceLock<Option<String>> = std::sync::OnceLock::new();
    static NEXT: std::sync::atomic::AtomicUsize = std::sync::atomic::AtomicUsize::new(0);
    thread_local! {
        static ME: usize = NEXT.fetch_add(1, Ordering::Relaxed);
    }
    let Some(dir) = DIR.get_or_init(|| std::env::var("VERIF_TRACE_CASES").ok()) else { return };
    let me = ME.with(|m| *m);
    let v = json!({"check": sub, "case": case});
    let _ = std::fs::write(format!("{dir}/current-{me}.json"), serde_json::to_vec(&v).unwrap_or_default());
}

fn run_case<C: Serialize>(sub: &str, test: &(impl Fn(&C) -> TestResult + Sync), case: &C) -> TestResult {
    trace_case(sub, case);
    HEARTBEAT.fetch_add(1, Ordering::Relaxed);
    match catch(|| test(case)) {
        Ok(r) => r,
        Err(p) => Err(Fail {
            msg: format!("PANIC: {p}"),
            sig: None,
        }),
    }
}

// ------------------------------------------------------------------------------------------
// known findings

#[derive(Clone, Debug, serde::Deserialize)]
pub struct KnownFinding {
    pub property: String,
    pub signature: String,
    pub status: String, // "known" | "fixed"
    pub what: String,
    #[serde(default)]
    pub commit: Option<String>,
}

pub fn load_known_findings() -> Vec<KnownFinding> {
    let p = Path::new(VERIF_DIR).join("known_findings.json");
    match std::fs::read_to_string(&p) {
        Ok(s) => serde_json::from_str::<Value>(&s)
            .ok()
            .and_then(|v| v.get("findings").cloned())
            .and_then(|v| serde_json::from_value(v).ok())
            .unwrap_or_default(),
        Err(_) => vec![],
    }
}

// ------------------------------------------------------------------------------------------
// report

pub struct SubReport {
    pub name: String,
    pub rule: String,
    pub evaluations: u64,
    pub nontrivial: HashSet<u64>,
    pub classes: BTreeMap<String, u64>,
    pub samples: Vec<Value>,
    pub exhaustive: bool,
    pub extra: BTreeMap<String, Value>,
}

pub struct Violation {
    pub sub: String,
    pub reason: String,
    pub replay: PathBuf,
}

pub struct Ctx {
    pub id: String,
    pub tier: Tier,
    pub seed: u64,
    pub replay: Option<PathBuf>,
    /// In strict mode (replay) known findings are reported as failures too.
    pub known: Vec<KnownFinding>,
}

pub struct Report {
    pub ctx: Ctx,
    start: Instant,
    pub subs: Vec<SubReport>,
    pub violations: Vec<Violation>,
    pub known_hits: BTreeSet<String>,
    pub assumptions: Vec<String>,
    pub inconclusive: Vec<String>,
    replay_case: Option<(String, Value)>,
    pub level: &'static str,
    /// output lines, printed by finish() (stdout may be redirected while a check runs)
    pub out: Vec<String>,
}

/// Keeps evidence files small: long strings and long arrays inside a sample are cut, with a
/// marker saying how much was left out.
pub fn compact_sample(v: &Value) -> Value {
    match v {
        Value::String(s) if s.chars().count() > 240 => {
            let head: String = s.chars().take(200).collect();
            Value::String(format!("{head}… [{} characters in all]", s.chars().count()))
        }
        Value::Array(a) if a.len() > 48 => {
            let mut out: Vec<Value> = a.iter().take(40).map(compact_sample).collect();
            out.push(Value::String(format!("… [{} elements in all]", a.len())));
            Value::Array(out)
        }
        Value::Array(a) => Value::Array(a.iter().map(compact_sample).collect()),
        Value::Object(o) => Value::Object(o.iter().map(|(k, x)| (k.clone(), compact_sample(x))).collect()),
        other => other.clone(),
    }
}

pub fn digest_of<T: Serialize>(v: &T) -> u64 {
    let bytes = serde_json::to_vec(v).unwrap_or_default();
    let mut h = std::collections::hash_map::DefaultHasher::new();
    bytes.hash(&mut h);
    h.finish()
}

fn mix_seed(seed: u64, id: &str, sub: &str, shard: u64) -> [u8; 32] {
    // splitmix-style expansion of (seed, id, sub, shard) into 32 bytes
    let mut h = std::collections::hash_map::DefaultHasher::new();
    (seed, id, sub, shard).hash(&mut h);
    let mut x = h.finish();
    let mut out = [0u8; 32];
    for chunk in out.chunks_mut(8) {
        x = x.wrapping_add(0x9e3779b97f4a7c15);
        let mut z = x;
        z = (z ^ (z >> 30)).wrapping_mul(0xbf58476d1ce4e5b9);
        z = (z ^ (z >> 27)).wrapping_mul(0x94d049bb133111eb);
        z ^= z >> 31;
        chunk.copy_from_slice(&z.to_le_bytes());
    }
    out
}

struct ShardStats {
    evaluations: u64,
    nontrivial: HashSet<u64>,
    classes: BTreeMap<&'static str, u64>,
    samples: Vec<Value>,
    failed: bool,
    known_hits: BTreeSet<String>,
    known_excluded: u64,
}

impl ShardStats {
    fn new() -> Self {
        Self {
            evaluations: 0,
            nontrivial: HashSet::new(),
            classes: BTreeMap::new(),
            samples: vec![],
            failed: false,
            known_hits: BTreeSet::new(),
            known_excluded: 0,
        }
    }
}

fn sample_slot(n: u64) -> bool {
    // keep the 1st, 2nd, 10th, 100th, 1000th ... evaluation of each shard
    n == 1 || n == 2 || n == 10 || n == 100 || n == 1000 || n == 10000 || n == 100000
}

/// Development aid: VERIF_ONLY_SUB=<name> runs just that sub-check (never set by the registered
/// commands).
fn skip_sub(sub: &str) -> bool {
    matches!(std::env::var("VERIF_ONLY_SUB"), Ok(v) if !v.is_empty() && v != sub)
}

impl Report {
    pub fn new(ctx: Ctx) -> Self {
        let replay_case = ctx.replay.as_ref().map(|p| {
            let s = std::fs::read_to_string(p).unwrap_or_else(|e| {
                eprintln!("cannot read replay file {}: {e}", p.display());
                std::process::exit(2);
            });
            let v: Value = serde_json::from_str(&s).unwrap_or_else(|e| {
                eprintln!("replay file is not JSON: {e}");
                std::process::exit(2);
            });
            (
                v.get("check").and_then(|c| c.as_str()).unwrap_or("").to_string(),
                v.get("case").cloned().unwrap_or(Value::Null),
            )
        });
        Self {
            ctx,
            start: Instant::now(),
            subs: vec![],
            violations: vec![],
            known_hits: BTreeSet::new(),
            assumptions: vec![],
            inconclusive: vec![],
            replay_case,
            level: "exploration",
            out: vec![],
        }
    }

    pub fn is_replay(&self) -> bool {
        self.replay_case.is_some()
    }

    pub fn quick(&self) -> bool {
        self.ctx.tier == Tier::Quick
    }

    /// Case count for the tier.
    pub fn n(&self, quick: u64, thorough: u64) -> u64 {
        match self.ctx.tier {
            Tier::Quick => quick,
            Tier::Thorough => thorough,
        }
    }

    pub fn assume(&mut self, s: &str) {
        self.assumptions.push(s.to_string());
    }

    fn is_known(&self, sig: &Option<String>) -> Option<&KnownFinding> {
        let sig = sig.as_ref()?;
        self.ctx
            .known
            .iter()
            .find(|k| k.property == self.ctx.id && &k.signature == sig && k.status == "known")
    }

    fn write_replay<C: Serialize>(&self, sub: &str, case: &C, reason: &str) -> PathBuf {
        let dir = Path::new(VERIF_DIR).join("replays");
        let _ = std::fs::create_dir_all(&dir);
        let d = digest_of(case);
        let path = dir.join(format!("{}-{}-{:016x}.json", self.ctx.id, sub, d));
        let v = json!({
            "property": self.ctx.id,
            "check": sub,
            "reason": reason,
            "seed": self.ctx.seed,
            "case": case,
        });
        let _ = std::fs::write(&path, serde_json::to_string_pretty(&v).unwrap());
        path
    }

    fn record_violation<C: Serialize>(&mut self, sub: &str, case: &C, reason: &str) {
        let path = if let Some(p) = self.ctx.replay.clone() {
            p
        } else {
            self.write_replay(sub, case, reason)
        };
        self.out.push(format!("VIOLATION property={} replay={}", self.ctx.id, path.display()));
        self.out.push(format!("  check={sub} reason={}", reason.replace('\n', " | ")));
        self.violations.push(Violation {
            sub: sub.to_string(),
            reason: reason.to_string(),
            replay: path,
        });
    }

    /// Runs the regression corpus (/verif/corpus/<ID>/<sub>-*.json) and, in replay mode, the
    /// replay file; returns true if the generated search should run afterwards.
    fn pre_run<C, F>(&mut self, sub: &str, test: &F, stats: &mut ShardStats) -> bool
    where
        C: Serialize + DeserializeOwned,
        F: Fn(&C) -> TestResult + Sync,
    {
        if let Some((check, case)) = self.replay_case.clone() {
            if check == sub {
                match serde_json::from_value::<C>(case) {
                    Ok(c) => {
                        stats.evaluations += 1;
                        match run_case(sub, test, &c) {
                            Ok(_) => self.out.push(format!("replay: case passes ({})", sub)),
                            Err(f) => {
                                // strict: known findings are still failures in replay mode
                                self.record_violation(sub, &c, &f.msg);
                            }
                        }
                    }
                    Err(e) => {
                        eprintln!("replay case does not fit check {sub}: {e}");
                        std::process::exit(2);
                    }
                }
            }
            return false;
        }
        let dir = Path::new(VERIF_DIR).join("corpus").join(&self.ctx.id);
        let mut files: Vec<PathBuf> = std::fs::read_dir(&dir)
            .map(|rd| rd.filter_map(|e| e.ok().map(|e| e.path())).collect())
            .unwrap_or_default();
        files.sort();
        for f in files {
            let Ok(s) = std::fs::read_to_string(&f) else { continue };
            let Ok(v) = serde_json::from_str::<Value>(&s) else { continue };
            if v.get("check").and_then(|c| c.as_str()) != Some(sub) {
                continue;
            }
            let Some(case) = v.get("case") else { continue };
            let Ok(c) = serde_json::from_value::<C>(case.clone()) else {
                eprintln!("warning: corpus file {} does not fit check {sub}", f.display());
                continue;
            };
            stats.evaluations += 1;
            *stats.classes.entry("corpus-regression").or_default() += 1;
            match run_case(sub, test, &c) {
                Ok(info) => {
                    if info.nontrivial {
                        stats.nontrivial.insert(digest_of(&c));
                    }
                }
                Err(fl) => {
                    if let Some(k) = self.is_known(&fl.sig) {
                        stats.known_hits.insert(format!("{} ({})", k.what, k.signature));
                    } else {
                        let p = self.write_replay(sub, &c, &fl.msg);
                        self.out.push(format!("VIOLATION property={} replay={}", self.ctx.id, p.display()));
                        self.out.push(format!(
                            "  check={sub} (regression corpus {}) reason={}",
                            f.display(),
                            fl.msg.replace('\n', " | ")
                        ));
                        self.violations.push(Violation {
                            sub: sub.to_string(),
                            reason: fl.msg,
                            replay: p,
                        });
                    }
                }
            }
        }
        true
    }

    /// Generated search: `cases` cases over `shards` independent proptest runners.
    pub fn run_prop<C, S, G, F>(
        &mut self,
        sub: &str,
        rule: &str,
        cases: u64,
        make_strategy: G,
        test: F,
    ) where
        C: Serialize + DeserializeOwned + Clone + Send + std::fmt::Debug,
        S: Strategy<Value = C>,
        G: Fn() -> S + Sync,
        F: Fn(&C) -> TestResult + Sync,
    {
        if skip_sub(sub) {
            return;
        }
        start_watchdog(300);
        let mut pre = ShardStats::new();
        let go = self.pre_run::<C, F>(sub, &test, &mut pre);
        let shards: u64 = match self.ctx.tier {
            Tier::Quick => 8,
            Tier::Thorough => 16,
        }
        .min(cases.max(1));
        let per_shard = cases.div_ceil(shards.max(1));
        let stop = AtomicBool::new(false);
        let known = self.ctx.known.clone();
        let id = self.ctx.id.clone();
        let seed = self.ctx.seed;
        let results: Mutex<Vec<(u64, ShardStats, Option<(C, String)>)>> = Mutex::new(vec![]);
        if go && self.violations.is_empty() {
            std::thread::scope(|scope| {
                for shard in 0..shards {
                    let (stop, known, id, results, test, make_strategy) =
                        (&stop, &known, &id, &results, &test, &make_strategy);
                    std::thread::Builder::new()
                        .stack_size(64 << 20)
                        .spawn_scoped(scope, move || {
                            let mut stats = ShardStats::new();
                            let cfg = Config {
                                cases: per_shard as u32,
                                failure_persistence: None,
                                max_shrink_iters: 20000,
                                // a time budget on shrinking only affects how small the replay
                                // case gets, never whether a failure is reported
                                max_shrink_time: 30_000,
                                max_global_rejects: 1 << 20,
                                ..Config::default()
                            };
                            let rng = TestRng::from_seed(
                                RngAlgorithm::ChaCha,
                                &mix_seed(seed, id, sub, shard),
                            );
                            let mut runner = TestRunner::new_with_rng(cfg, rng);
                            let strat = make_strategy();
                            let stats_cell = std::cell::RefCell::new(&mut stats);
                            let res = runner.run(&strat, |case| {
                                let mut st = stats_cell.borrow_mut();
                                if !st.failed && stop.load(Ordering::Relaxed) {
                                    // another shard failed: finish quickly
                                    return Ok(());
                                }
                                let r = run_case(sub, test, &case);
                                match r {
                                    Ok(info) => {
                                        if !st.failed {
                                            st.evaluations += 1;
                                            if info.nontrivial {
                                                st.nontrivial.insert(digest_of(&case));
                                            }
                                            for c in info.classes {
                                                *st.classes.entry(c).or_default() += 1;
                                            }
                                            let n = st.evaluations;
                                            if sample_slot(n) && st.samples.len() < 6 {
                                                if let Ok(v) = serde_json::to_value(&case) {
                                                    st.samples.push(v);
                                                }
                                            }
                                        }
                                        Ok(())
                                    }
                                    Err(f) => {
                                        if let Some(sig) = f.sig.as_ref() {
                                            if let Some(k) = known.iter().find(|k| {
                                                &k.property == id
                                                    && &k.signature == sig
                                                    && k.status == "known"
                                            }) {
                                                st.known_hits
                                                    .insert(format!("{} ({})", k.what, k.signature));
                                                st.known_excluded += 1;
                                                return Ok(());
                                            }
                                        }
                                        if !st.failed {
                                            st.evaluations += 1;
                                            st.failed = true;
                                            stop.store(true, Ordering::Relaxed);
                                        }
                                        Err(TestCaseError::fail(f.msg))
                                    }
                                }
                            });
                            drop(stats_cell);
                            let failure = match res {
                                Ok(()) => None,
                                Err(TestError::Fail(reason, value)) => {
                                    Some((value, reason.message().to_string()))
                                }
                                Err(TestError::Abort(reason)) => {
                                    eprintln!(
                                        "shard {shard} of {sub} aborted: {}",
                                        reason.message()
                                    );
                                    None
                                }
                            };
                            results.lock().unwrap().push((shard, stats, failure));
                        })
                        .expect("spawn shard");
                }
            });
        }
        let mut results = results.into_inner().unwrap();
        results.sort_by_key(|r| r.0);
        let mut sr = SubReport {
            name: sub.to_string(),
            rule: rule.to_string(),
            evaluations: pre.evaluations,
            nontrivial: pre.nontrivial,
            classes: pre.classes.iter().map(|(k, v)| (k.to_string(), *v)).collect(),
            samples: vec![],
            exhaustive: false,
            extra: BTreeMap::new(),
        };
        self.known_hits.extend(pre.known_hits);
        let mut first_failure: Option<(C, String)> = None;
        let mut known_excluded = 0;
        for (_, st, failure) in results {
            sr.evaluations += st.evaluations;
            sr.nontrivial.extend(st.nontrivial);
            for (k, v) in st.classes {
                *sr.classes.entry(k.to_string()).or_default() += v;
            }
            if sr.samples.len() < 8 {
                sr.samples.extend(st.samples.into_iter().take(2));
            }
            self.known_hits.extend(st.known_hits);
            known_excluded += st.known_excluded;
            if first_failure.is_none() {
                first_failure = failure;
            }
        }
        if known_excluded > 0 {
            sr.extra
                .insert("known_finding_cases_excluded".into(), json!(known_excluded));
        }
        if let Some((case, reason)) = first_failure {
            // re-execute the shrunk case once to get the final reason text
            let reason = match run_case(sub, &test, &case) {
                Err(f) => f.msg,
                Ok(_) => format!("{reason} (shrunk case passed on re-execution: flaky)"),
            };
            self.record_violation(sub, &case, &reason);
        }
        self.subs.push(sr);
    }

    /// Exhaustive enumeration of a finite space (cases produced in increasing size order, so the
    /// first failure is the smallest one). Runs in parallel chunks.
    pub fn run_enum<C, I, F>(&mut self, sub: &str, rule: &str, exhaustive: bool, cases: I, test: F)
    where
        C: Serialize + DeserializeOwned + Clone + Send + Sync + std::fmt::Debug,
        I: Iterator<Item = C>,
        F: Fn(&C) -> TestResult + Sync,
    {
        if skip_sub(sub) {
            return;
        }
        let mut pre = ShardStats::new();
        let go = self.pre_run::<C, F>(sub, &test, &mut pre);
        let mut sr = SubReport {
            name: sub.to_string(),
            rule: rule.to_string(),
            evaluations: pre.evaluations,
            nontrivial: pre.nontrivial,
            classes: pre.classes.iter().map(|(k, v)| (k.to_string(), *v)).collect(),
            samples: vec![],
            exhaustive,
            extra: BTreeMap::new(),
        };
        self.known_hits.extend(pre.known_hits);
        if go && self.violations.is_empty() {
            let mut cases = cases;
            const CHUNK: usize = 4096;
            let threads = 16usize;
            'outer: loop {
                let chunk: Vec<C> = cases.by_ref().take(CHUNK * threads).collect();
                if chunk.is_empty() {
                    break;
                }
                let outs: Vec<(usize, ShardStats, Option<(usize, Fail)>)> =
                    std::thread::scope(|scope| {
                        let mut hs = vec![];
                        // strided split: thread t takes the cases t, t + threads, ... (a handful
                        // of heavy deterministic cases is spread over the threads as well)
                        for t in 0..threads.min(chunk.len()) {
                            let part = &chunk;
                            let test = &test;
                            let known = &self.ctx.known;
                            let id = &self.ctx.id;
                            hs.push(scope.spawn(move || {
                                let mut st = ShardStats::new();
                                let mut failure = None;
                                for (i, c) in part.iter().enumerate().skip(t).step_by(threads) {
                                    st.evaluations += 1;
                                    match run_case(sub, test, c) {
                                        Ok(info) => {
                                            if info.nontrivial {
                                                st.nontrivial.insert(digest_of(c));
                                            }
                                            for cl in info.classes {
                                                *st.classes.entry(cl).or_default() += 1;
                                            }
                                        }
                                        Err(f) => {
                                            if let Some(sig) = f.sig.as_ref() {
                                                if let Some(k) = known.iter().find(|k| {
                                                    &k.property == id
                                                        && &k.signature == sig
                                                        && k.status == "known"
                                                }) {
                                                    st.known_hits.insert(format!(
                                                        "{} ({})",
                                                        k.what, k.signature
                                                    ));
                                                    continue;
                                                }
                                            }
                                            failure = Some((i, f));
                                            break;
                                        }
                                    }
                                }
                                (t, st, failure)
                            }));
                        }
                        hs.into_iter().map(|h| h.join().unwrap()).collect()
                    });
                let mut first: Option<(usize, Fail)> = None;
                for (_, st, failure) in outs {
                    sr.evaluations += st.evaluations;
                    sr.nontrivial.extend(st.nontrivial);
                    for (k, v) in st.classes {
                        *sr.classes.entry(k.to_string()).or_default() += v;
                    }
                    self.known_hits.extend(st.known_hits);
                    if let Some((i, f)) = failure {
                        if first.as_ref().map_or(true, |(j, _)| i < *j) {
                            first = Some((i, f));
                        }
                    }
                }
                if sr.samples.len() < 4 {
                    for c in chunk.iter().step_by((chunk.len() / 3).max(1)).take(4) {
                        if let Ok(v) = serde_json::to_value(c) {
                            sr.samples.push(v);
                        }
                    }
                }
                if let Some((i, f)) = first {
                    self.record_violation(sub, &chunk[i], &f.msg);
                    sr.exhaustive = false;
                    break 'outer;
                }
            }
        }
        self.subs.push(sr);
    }

    /// Adds a named counter to the evidence of the most recent sub-check.
    pub fn extra(&mut self, key: &str, v: Value) {
        if let Some(s) = self.subs.last_mut() {
            s.extra.insert(key.to_string(), v);
        }
    }

    pub fn known_finding_line(&mut self, what: &str) {
        self.known_hits.insert(what.to_string());
    }

    /// Writes the evidence file and terminates the process with the contract's exit code.
    pub fn finish(self) -> ! {
        let wall = self.start.elapsed().as_secs_f64();
        for l in &self.out {
            println!("{l}");
        }
        for k in &self.known_hits {
            println!("KNOWN-FINDING: property={} {}", self.ctx.id, k);
        }
        let evaluations: u64 = self.subs.iter().map(|s| s.evaluations).sum();
        let distinct: u64 = self.subs.iter().map(|s| s.nontrivial.len() as u64).sum();
        let rule = self
            .subs
            .iter()
            .map(|s| format!("[{}] {}", s.name, s.rule))
            .collect::<Vec<_>>()
            .join(" || ");
        let mut samples = vec![];
        for s in &self.subs {
            for v in s.samples.iter().take(3) {
                samples.push(json!({"check": s.name, "case": compact_sample(v)}));
            }
        }
        let subs: Vec<Value> = self
            .subs
            .iter()
            .map(|s| {
                json!({
                    "check": s.name,
                    "evaluations": s.evaluations,
                    "distinct_nontrivial": s.nontrivial.len(),
                    "exhaustive": s.exhaustive,
                    "classes": s.classes,
                    "extra": s.extra,
                })
            })
            .collect();
        let all_exhaustive = !self.subs.is_empty() && self.subs.iter().all(|s| s.exhaustive);
        // statistics of the libFuzzer campaign the check script ran before this binary (thorough)
        let fuzz: Value = std::env::var("VERIF_FUZZ_STATS_JSON")
            .ok()
            .and_then(|p| std::fs::read_to_string(p).ok())
            .and_then(|s| serde_json::from_str(&s).ok())
            .unwrap_or(Value::Null);
        let ev = json!({
            "property_id": self.ctx.id,
            "tier": self.ctx.tier.name(),
            "seed": self.ctx.seed,
            "level": self.level,
            "coverage": {
                "evaluations": evaluations,
                "distinct_nontrivial": distinct,
                "rule": rule,
                "samples": samples,
                "exhaustive": all_exhaustive,
                "sub_checks": subs,
                "known_findings_reported": self.known_hits.iter().collect::<Vec<_>>(),
                "inconclusive": self.inconclusive,
                "libfuzzer_campaign": fuzz,
            },
            "assumptions": self.assumptions,
            "wall_s": wall,
            "violations": self.violations.len(),
        });
        if !self.is_replay() {
            let dir = Path::new(VERIF_DIR).join("evidence");
            let _ = std::fs::create_dir_all(&dir);
            let path = dir.join(format!("{}.json", self.ctx.id));
            if let Err(e) = std::fs::write(&path, serde_json::to_string_pretty(&ev).unwrap()) {
                eprintln!("cannot write evidence {}: {e}", path.display());
                std::process::exit(2);
            }
        }
        println!(
            "{} {}: evaluations={} distinct_nontrivial={} violations={} wall={:.1}s",
            self.ctx.id,
            self.ctx.tier.name(),
            evaluations,
            distinct,
            self.violations.len(),
            wall
        );
        for s in &self.subs {
            println!(
                "  [{}] eval={} nontrivial={} classes={:?}",
                s.name,
                s.evaluations,
                s.nontrivial.len(),
                s.classes
            );
        }
        if !self.violations.is_empty() {
            std::process::exit(1);
        }
        if !self.inconclusive.is_empty() {
            for i in &self.inconclusive {
                eprintln!("INCONCLUSIVE: {i}");
            }
            std::process::exit(2);
        }
        std::process::exit(0);
    }
}

/// Parses `<ID> quick|thorough` or `<ID> --replay FILE` plus VERIF_SEED.
pub fn ctx_from_args(args: &[String]) -> Ctx {
    let usage = || -> ! {
        eprintln!("usage: vcheck <ID> quick|thorough | <ID> --replay FILE");
        std::process::exit(2);
    };
    if args.len() < 2 {
        usage();
    }
    let id = args[0].clone();
    let (tier, replay) = match args[1].as_str() {
        "quick" => (Tier::Quick, None),
        "thorough" => (Tier::Thorough, None),
        "--replay" => {
            if args.len() < 3 {
                usage();
            }
            (Tier::Quick, Some(PathBuf::from(&args[2])))
        }
        _ => usage(),
    };
    let seed = std::env::var("VERIF_SEED")
        .ok()
        .and_then(|s| s.trim().parse::<i64>().ok())
        .map(|v| v as u64)
        .unwrap_or(0);
    Ctx {
        id,
        tier,
        seed,
        replay,
        known: load_known_findings(),
    }
}
