//! Generators. Every random choice is made by proptest strategies; raw index-based values are
//! resolved into concrete cases by pure functions (`prop_map`), so shrinking and replay work.
//! Indices are mapped monotonically (`i * len >> 16`), never with `%`.

use proptest::collection::vec;
use proptest::prelude::*;
use serde::{Deserialize, Serialize};

use crate::mirror::*;
use crate::oracle;

// ------------------------------------------------------------------------------------------
// character pools

pub const POOL_ASCII: &[char] = &['a', 'b', 'c', 'x', 'A', 'Z', '0', '1', '9'];
pub const POOL_2B: &[char] = &['é', 'Ω', 'ß', 'я'];
pub const POOL_HIRA: &[char] = &['あ', 'い', 'の', 'は', 'で', 'す', 'ま', 'ぁ'];
pub const POOL_KATA: &[char] = &['ア', 'イ', 'ー', 'テ', 'ス', 'ト', 'ｱ', 'ｶ'];
pub const POOL_KANJI: &[char] = &['火', '星', '猫', '社', '長', '東', '京'];
pub const POOL_FULL: &[char] = &['Ａ', 'ｚ', '０', '９', '！', '。', '、'];
pub const POOL_4B: &[char] = &['𠀋', '𠮷', '𪚲', '😀', '🎉', '👨', '👩', '👏'];
pub const POOL_HOSTILE: &[char] = &[
    ' ', '/', '\\', '-', '|', ',', '"', '\r', '\n', '\t', '\u{200d}', '🇯', '🇵', '\u{3099}',
    '\u{fe0f}', '\u{0301}', 'ﾞ', '%', '#', '.', '\u{1f3fd}', '\u{1100}', '\u{1161}', '\u{11a8}',
    '\u{7f}', '\u{85}', '\u{2028}', '\u{feff}', '\u{3000}', '\u{a0}', '\u{200b}', '\u{ad}', '\u{fffd}',
    // the neighbours of CR / LF among the control codes and the other Unicode line separators
    '\u{b}', '\u{c}', '\u{1c}', '\u{1d}', '\u{1e}', '\u{1f}', '\u{2029}', '\u{8}', '\u{e}',
];

/// The first and last scalar value of every UTF-8 length and lead-byte class (lead bytes 0xC2,
/// 0xDF | 0xE0 | 0xE1, 0xEC | 0xED | 0xEE, 0xEF | 0xF0 | 0xF1, 0xF3 | 0xF4), plus Thai /
/// Devanagari letters from the 0xE0 block.
pub const POOL_UTF8_EDGES: &[char] = &[
    '\u{7f}', '\u{80}', '\u{7ff}', '\u{800}', '\u{fff}', '\u{1000}', '\u{cfff}', '\u{d000}', '\u{d7ff}',
    '\u{e000}', '\u{ffff}', '\u{10000}', '\u{3ffff}', '\u{40000}', '\u{fffff}', '\u{100000}', '\u{10ffff}',
    'ส', 'न', '\u{0e33}', '\u{0903}',
];

/// Characters whose scalar value ends in the byte (or, beyond the BMP, the 16 bits) of a format
/// symbol or control code: NUL, LF, CR, space, '-', '/', '\\', '|' - what a truncating cast of a
/// character turns into a delimiter.
pub const POOL_LOW_BYTE: &[char] = &[
    '一', '上', '不', '丠', '中', '丯', '乜', '乼', 'ぜ', 'ぼ', '頭', '〠', '\u{100}', '\u{10a}', '\u{10d}', '\u{120}',
    '\u{12d}', '\u{12f}', '\u{15c}', '\u{17c}', '\u{1002f}', '\u{1005c}', '\u{10020}', '\u{1002d}', '\u{1007c}',
    '\u{1000a}', '\u{10000}',
];

pub const POOLS: &[&[char]] = &[
    POOL_ASCII,
    POOL_UTF8_EDGES,
    POOL_LOW_BYTE,
    POOL_2B,
    POOL_HIRA,
    POOL_KATA,
    POOL_KANJI,
    POOL_FULL,
    POOL_4B,
    POOL_HOSTILE,
];

pub fn all_pool_chars() -> Vec<char> {
    POOLS.iter().flat_map(|p| p.iter().copied()).collect()
}

#[inline]
pub fn pick(i: u16, len: usize) -> usize {
    debug_assert!(len > 0);
    ((i as usize) * len) >> 16
}

/// Raw palette entry: (pool selector, index in pool).
pub fn palette_raw(min: usize, max: usize) -> impl Strategy<Value = Vec<(u16, u16)>> {
    vec((any::<u16>(), any::<u16>()), min..=max)
}

pub fn resolve_palette(raw: &[(u16, u16)], hostile: bool) -> Vec<char> {
    let mut out: Vec<char> = vec![];
    let npools = if hostile { POOLS.len() } else { POOLS.len() - 1 };
    for &(p, i) in raw {
        let pool = POOLS[pick(p, npools)];
        let mut c = pool[pick(i, pool.len())];
        // keep palette entries distinct where possible
        let mut tries = 0;
        while out.contains(&c) && tries < pool.len() {
            let k = (pool.iter().position(|&x| x == c).unwrap() + 1) % pool.len();
            c = pool[k];
            tries += 1;
        }
        out.push(c);
    }
    out
}

/// Text index -> character: mostly palette, a small rate from all pools.
pub fn resolve_char(i: u16, palette: &[char], all: &[char]) -> char {
    const CUT: u32 = 61000;
    if (i as u32) < CUT {
        palette[((i as usize) * palette.len()) / CUT as usize]
    } else {
        all[(((i as u32 - CUT) as usize) * all.len()) / (65536 - CUT as usize)]
    }
}

pub fn resolve_text(raw: &[u16], palette: &[char], all: &[char]) -> String {
    raw.iter().map(|&i| resolve_char(i, palette, all)).collect()
}

pub fn weight() -> impl Strategy<Value = i32> {
    prop_oneof![
        8 => -100i32..=100,
        3 => -32768i32..=32767,
        1 => Just(32767i32),
        1 => Just(-32767i32),
        1 => Just(-32768i32),
        2 => Just(0i32),
        1 => Just(1i32),
        1 => Just(-1i32),
    ]
}

pub fn window(allow_255: bool) -> impl Strategy<Value = u8> {
    if allow_255 {
        prop_oneof![
            12 => 1u8..=3,
            6 => prop_oneof![Just(4u8), Just(5u8), Just(8u8), Just(9u8)],
            2 => prop_oneof![Just(16u8), Just(40u8)],
            1 => Just(255u8),
            1 => Just(0u8),
        ]
        .boxed()
    } else {
        prop_oneof![
            12 => 1u8..=3,
            6 => prop_oneof![Just(4u8), Just(5u8), Just(8u8), Just(9u8)],
            1 => Just(16u8),
            1 => Just(0u8),
        ]
        .boxed()
    }
}

// ------------------------------------------------------------------------------------------
// raw model

#[derive(Clone, Debug)]
pub struct RawNgram {
    pub chars: Vec<u16>,
    /// derive the string as a suffix of another n-gram: (index selector, chars to drop)
    pub suffix_of: Option<(u16, u8)>,
    pub weights: Vec<i32>,
}

#[derive(Clone, Debug)]
pub struct RawTypeNgram {
    pub types: Vec<u8>,
    pub suffix_of: Option<(u16, u8)>,
    pub weights: Vec<i32>,
}

#[derive(Clone, Debug)]
pub struct RawWord {
    pub chars: Vec<u16>,
    /// make the word equal to (or a suffix of) a character n-gram
    pub same_as_ngram: Option<(u16, u8)>,
    pub weights: Vec<i32>,
}

#[derive(Clone, Debug)]
pub struct RawTagNgram<T> {
    pub pat: T,
    /// use (a suffix of / an extension of) a boundary n-gram instead
    pub from_boundary: Option<u16>,
    pub rels: Vec<(u8, Vec<i32>)>,
}

#[derive(Clone, Debug)]
pub struct RawTagModel {
    pub token: Vec<u16>,
    /// number of candidates per category
    pub cats: Vec<u8>,
    pub bias: Vec<i32>,
    pub char_ngrams: Vec<RawTagNgram<Vec<u16>>>,
    pub type_ngrams: Vec<RawTagNgram<Vec<u8>>>,
}

#[derive(Clone, Debug)]
pub struct RawModel {
    pub palette: Vec<(u16, u16)>,
    pub hostile: bool,
    pub char_window: u8,
    pub type_window: u8,
    pub ngrams: Vec<RawNgram>,
    pub type_ngrams: Vec<RawTypeNgram>,
    pub words: Vec<RawWord>,
    pub bias: i32,
    pub small_weights: bool,
    pub tag_models: Vec<RawTagModel>,
    pub texts: Vec<Vec<u16>>,
    /// force the score of one boundary of one text to exactly this value (threshold edge)
    pub force_score: Option<(u16, u16, i8)>,
}

#[derive(Clone, Copy, Debug)]
pub struct ModelCfg {
    pub max_ngrams: usize,
    pub max_type_ngrams: usize,
    pub max_words: usize,
    pub max_tag_models: usize,
    pub max_text_len: usize,
    pub min_texts: usize,
    pub max_texts: usize,
    pub allow_255: bool,
    pub hostile: bool,
}

impl ModelCfg {
    pub const BOUNDARY: ModelCfg = ModelCfg {
        max_ngrams: 12,
        max_type_ngrams: 8,
        max_words: 8,
        max_tag_models: 0,
        max_text_len: 40,
        min_texts: 1,
        max_texts: 4,
        allow_255: true,
        hostile: true,
    };
    pub const TAGGED: ModelCfg = ModelCfg {
        max_ngrams: 8,
        max_type_ngrams: 5,
        max_words: 5,
        max_tag_models: 3,
        max_text_len: 24,
        min_texts: 1,
        max_texts: 3,
        allow_255: false,
        hostile: true,
    };
}

fn raw_ngram() -> impl Strategy<Value = RawNgram> {
    (
        prop_oneof![9 => vec(any::<u16>(), 1..=6), 1 => vec(any::<u16>(), 7..=12)],
        prop::option::weighted(0.35, (any::<u16>(), 1u8..=3)),
        weights16(),
    )
        .prop_map(|(chars, suffix_of, weights)| RawNgram {
            chars,
            suffix_of,
            weights,
        })
}

fn raw_type_ngram() -> impl Strategy<Value = RawTypeNgram> {
    (
        prop_oneof![9 => vec(1u8..=6, 1..=6), 1 => vec(1u8..=6, 7..=10)],
        prop::option::weighted(0.35, (any::<u16>(), 1u8..=3)),
        weights16(),
    )
        .prop_map(|(types, suffix_of, weights)| RawTypeNgram {
            types,
            suffix_of,
            weights,
        })
}

fn raw_word() -> impl Strategy<Value = RawWord> {
    (
        prop_oneof![8 => vec(any::<u16>(), 1..=4), 2 => vec(any::<u16>(), 5..=12), 1 => vec(any::<u16>(), 13..=45)],
        prop::option::weighted(0.3, (any::<u16>(), 0u8..=2)),
        weights16(),
    )
        .prop_map(|(chars, same_as_ngram, weights)| RawWord {
            chars,
            same_as_ngram,
            weights,
        })
}

fn raw_tag_ngram<T: std::fmt::Debug + Clone>(
    pat: impl Strategy<Value = T>,
) -> impl Strategy<Value = RawTagNgram<T>> {
    (
        pat,
        prop::option::weighted(0.3, any::<u16>()),
        vec((any::<u8>(), vec(weight(), 12)), 1..=3),
    )
        .prop_map(|(pat, from_boundary, rels)| RawTagNgram {
            pat,
            from_boundary,
            rels,
        })
}

fn raw_tag_model() -> impl Strategy<Value = RawTagModel> {
    (
        vec(any::<u16>(), 1..=3),
        vec(0u8..=4, 0..=3),
        vec(weight(), 12),
        vec(raw_tag_ngram(vec(any::<u16>(), 1..=4)), 0..=4),
        vec(raw_tag_ngram(vec(1u8..=6, 1..=4)), 0..=3),
    )
        .prop_map(|(token, cats, bias, char_ngrams, type_ngrams)| RawTagModel {
            token,
            cats,
            bias,
            char_ngrams,
            type_ngrams,
        })
}

pub fn raw_model(cfg: ModelCfg) -> impl Strategy<Value = RawModel> {
    (
        (
            palette_raw(2, 6),
            window(cfg.allow_255),
            window(cfg.allow_255),
            vec(raw_ngram(), 0..=cfg.max_ngrams),
            vec(raw_type_ngram(), 0..=cfg.max_type_ngrams),
            vec(raw_word(), 0..=cfg.max_words),
        ),
        (
            weight(),
            prop::bool::weighted(0.2),
            vec(raw_tag_model(), 0..=cfg.max_tag_models),
            vec(
                vec(any::<u16>(), 1..=cfg.max_text_len),
                cfg.min_texts..=cfg.max_texts,
            ),
            prop::option::weighted(0.3, (any::<u16>(), any::<u16>(), -1i8..=1)),
        ),
    )
        .prop_map(
            move |(
                (palette, char_window, type_window, ngrams, type_ngrams, words),
                (bias, small_weights, tag_models, texts, force_score),
            )| RawModel {
                palette,
                hostile: cfg.hostile,
                char_window,
                type_window,
                ngrams,
                type_ngrams,
                words,
                bias,
                small_weights,
                tag_models,
                texts,
                force_score,
            },
        )
}

/// A concrete (model, texts) case; this is what is tested, sampled and written to replay files.
#[derive(Clone, Debug, PartialEq, Eq, Serialize, Deserialize)]
pub struct ModelCase {
    pub spec: ModelSpec,
    pub texts: Vec<String>,
}

const TAG_NAMES: &[&str] = &[
    "名詞", "動詞", "N", "V", "a/b", "x y", "助-詞", "A|B", "\\", "カセー", "𠀋", "é", "z", "ｶﾞ",
    "t0", "t1",
];

/// Sixteen weights followed by a shape (mode, run): sparse vectors with runs of zeros at either end
/// are what an L1-regularised learner produces, and the predictor chooses its representation of a
/// weight vector by its length.
pub fn weights16() -> impl Strategy<Value = Vec<i32>> {
    (vec(weight(), 16), 0i32..10, 0i32..256).prop_map(|(mut w, mode, run)| {
        w.push(mode);
        w.push(run);
        w
    })
}

fn fit_weights(src: &[i32], n: usize, small: bool) -> Vec<i32> {
    let (src, shape) = if src.len() == 18 {
        (&src[..16], Some((src[16], src[17] as usize)))
    } else {
        (src, None)
    };
    let mut out: Vec<i32> = (0..n)
        .map(|k| {
            let w = src[k % src.len()];
            if small {
                w.signum() * ((w.unsigned_abs() % 2) as i32)
            } else {
                w
            }
        })
        .collect();
    if let (Some((mode, run)), true) = (shape, n > 0) {
        match mode {
            6 => {
                let k = 1 + run % n;
                out[n - k..].iter_mut().for_each(|x| *x = 0);
            }
            7 => {
                let k = 1 + run % n;
                out[..k].iter_mut().for_each(|x| *x = 0);
            }
            8 => {
                let keep = run % n;
                for (i, x) in out.iter_mut().enumerate() {
                    if i != keep {
                        *x = 0;
                    }
                }
            }
            9 => {
                let k = run % n;
                for (i, x) in out.iter_mut().enumerate() {
                    if i != 0 && i != k {
                        *x = 0;
                    }
                }
            }
            _ => {}
        }
    }
    out
}

pub fn resolve_model(raw: &RawModel) -> ModelCase {
    let palette = resolve_palette(&raw.palette, raw.hostile);
    let all = all_pool_chars();
    let small = raw.small_weights;
    let cw = raw.char_window as usize;
    let tw = raw.type_window as usize;

    // character n-grams
    let mut char_ngrams: Vec<NgramSpec<String>> = vec![];
    let mut ngram_chars: Vec<Vec<char>> = vec![];
    for g in &raw.ngrams {
        let mut cs: Vec<char> = g
            .chars
            .iter()
            .map(|&i| palette[pick(i, palette.len())])
            .collect();
        if let Some((sel, drop)) = g.suffix_of {
            if !ngram_chars.is_empty() {
                let src = &ngram_chars[pick(sel, ngram_chars.len())];
                if src.len() > drop as usize {
                    cs = src[drop as usize..].to_vec();
                }
            }
        }
        cs.truncate((2 * cw).min(12).max(1));
        if ngram_chars.contains(&cs) {
            continue;
        }
        // window 0: the n-grams of such a model reach no boundary (the predictor ignores them);
        // the file format carries them all the same, with whatever weights
        let nw = if cw == 0 { g.weights[0].unsigned_abs() as usize % 4 } else { 2 * cw - cs.len() + 1 };
        char_ngrams.push(NgramSpec {
            ngram: cs.iter().collect(),
            weights: fit_weights(&g.weights, nw, small),
        });
        ngram_chars.push(cs);
    }
    // type n-grams
    let mut type_ngrams: Vec<NgramSpec<Vec<u8>>> = vec![];
    for g in &raw.type_ngrams {
        let mut ts = g.types.clone();
        if let Some((sel, drop)) = g.suffix_of {
            if !type_ngrams.is_empty() {
                let src = &type_ngrams[pick(sel, type_ngrams.len())].ngram;
                if src.len() > drop as usize {
                    ts = src[drop as usize..].to_vec();
                }
            }
        }
        ts.truncate((2 * tw).min(10).max(1));
        if type_ngrams.iter().any(|o| o.ngram == ts) {
            continue;
        }
        let nw = if tw == 0 { g.weights[0].unsigned_abs() as usize % 4 } else { 2 * tw - ts.len() + 1 };
        type_ngrams.push(NgramSpec {
            ngram: ts,
            weights: fit_weights(&g.weights, nw, small),
        });
    }
    // dictionary
    let mut dict: Vec<WordSpec> = vec![];
    for w in &raw.words {
        let mut cs: Vec<char> = w
            .chars
            .iter()
            .map(|&i| palette[pick(i, palette.len())])
            .collect();
        if let Some((sel, drop)) = w.same_as_ngram {
            if !ngram_chars.is_empty() {
                let src = &ngram_chars[pick(sel, ngram_chars.len())];
                if src.len() > drop as usize {
                    cs = src[drop as usize..].to_vec();
                }
            }
        }
        let word: String = cs.iter().collect();
        // the same word twice (homographs that differ in the comment) is a legal dictionary: both
        // records contribute; one duplicate in four is kept
        if dict.iter().any(|d| d.word == word) && w.weights[1] & 3 != 0 {
            continue;
        }
        dict.push(WordSpec {
            weights: fit_weights(&w.weights, cs.len() + 1, small),
            word,
            comment: String::new(),
        });
    }
    // tag models
    let mut tag_models: Vec<TagModelSpec> = vec![];
    for (ti, t) in raw.tag_models.iter().enumerate() {
        let token: String = t
            .token
            .iter()
            .map(|&i| palette[pick(i, palette.len())])
            .collect();
        if tag_models.iter().any(|m| m.token == token) {
            continue;
        }
        let mut tags = vec![];
        let mut n_class = 0;
        for (ci, &nc) in t.cats.iter().enumerate() {
            let cands: Vec<String> = (0..nc as usize)
                .map(|k| TAG_NAMES[(ti * 5 + ci * 3 + k * 7) % TAG_NAMES.len()].to_string())
                .collect();
            // distinct names within a category
            let mut uniq: Vec<String> = vec![];
            for (k, c) in cands.into_iter().enumerate() {
                if uniq.contains(&c) {
                    uniq.push(format!("{c}{k}"));
                } else {
                    uniq.push(c);
                }
            }
            if uniq.len() >= 2 {
                n_class += uniq.len();
            }
            tags.push(uniq);
        }
        let bias = fit_weights(&t.bias, n_class, small);
        let mut cn: Vec<TagNgramSpec<String>> = vec![];
        for g in &t.char_ngrams {
            let mut cs: Vec<char> = g
                .pat
                .iter()
                .map(|&i| palette[pick(i, palette.len())])
                .collect();
            if let Some(sel) = g.from_boundary {
                if !ngram_chars.is_empty() {
                    cs = ngram_chars[pick(sel, ngram_chars.len())].clone();
                    if sel & 1 == 1 && cs.len() > 1 {
                        cs.remove(0); // a proper suffix of a boundary n-gram
                    } else if sel & 2 == 2 {
                        cs.insert(0, palette[0]); // an extension of a boundary n-gram
                    }
                }
            }
            let ngram: String = cs.iter().collect();
            if cn.iter().any(|o| o.ngram == ngram) {
                continue;
            }
            let mut ws: Vec<TagWeightSpec> = vec![];
            for (r, w) in &g.rels {
                let rel = ((*r as usize * (cw + 1)) >> 8) as u8;
                // the same relative position listed twice for one n-gram (a merged or edited
                // model) is legal and both entries contribute; one repetition in four is kept
                if ws.iter().any(|o| o.rel_position == rel) && w[0] & 3 != 0 {
                    continue;
                }
                ws.push(TagWeightSpec {
                    rel_position: rel,
                    weights: fit_weights(w, n_class, small),
                });
            }
            cn.push(TagNgramSpec { ngram, weights: ws });
        }
        let mut tn: Vec<TagNgramSpec<Vec<u8>>> = vec![];
        for g in &t.type_ngrams {
            let mut ts = g.pat.clone();
            if let Some(sel) = g.from_boundary {
                if !type_ngrams.is_empty() {
                    ts = type_ngrams[pick(sel, type_ngrams.len())].ngram.clone();
                    if sel & 1 == 1 && ts.len() > 1 {
                        ts.remove(0);
                    }
                }
            }
            if tn.iter().any(|o| o.ngram == ts) {
                continue;
            }
            let mut ws: Vec<TagWeightSpec> = vec![];
            for (r, w) in &g.rels {
                let rel = ((*r as usize * (tw + 1)) >> 8) as u8;
                if ws.iter().any(|o| o.rel_position == rel) && w[0] & 3 != 0 {
                    continue;
                }
                ws.push(TagWeightSpec {
                    rel_position: rel,
                    weights: fit_weights(w, n_class, small),
                });
            }
            tn.push(TagNgramSpec {
                ngram: ts,
                weights: ws,
            });
        }
        tag_models.push(TagModelSpec {
            token,
            tags,
            char_ngrams: cn,
            type_ngrams: tn,
            bias,
        });
    }
    let texts: Vec<String> = raw
        .texts
        .iter()
        .map(|t| resolve_text(t, &palette, &all))
        .collect();
    let mut spec = ModelSpec {
        char_ngrams,
        type_ngrams,
        dict,
        bias: if small { raw.bias.signum() } else { raw.bias },
        char_window: raw.char_window,
        type_window: raw.type_window,
        tag_models,
    };
    if let Some((ti, bi, v)) = raw.force_score {
        let text: Vec<char> = texts[pick(ti, texts.len())].chars().collect();
        if text.len() >= 2 {
            let (scores, _) = oracle::ref_scores(&spec, &text);
            let b = pick(bi, scores.len());
            let nb = spec.bias as i64 - scores[b] + v as i64;
            if nb.abs() < (1 << 30) {
                spec.bias = nb as i32;
            }
        }
    }
    ModelCase { spec, texts }
}

pub fn model_case(cfg: ModelCfg) -> impl Strategy<Value = ModelCase> {
    raw_model(cfg).prop_map(|r| resolve_model(&r))
}

/// Models and texts over ASCII letters and digits only: texts in which byte and character
/// positions coincide are a class of their own for every position table and "is_ascii" shortcut.
pub fn model_case_ascii(cfg: ModelCfg) -> impl Strategy<Value = ModelCase> {
    raw_model(cfg).prop_map(|mut r| {
        r.palette.iter_mut().for_each(|p| p.0 = 0);
        r.hostile = false;
        resolve_model(&r)
    })
}

// ------------------------------------------------------------------------------------------
// annotated sentences

#[derive(Clone, Debug)]
pub struct RawSentence {
    pub palette: Vec<(u16, u16)>,
    pub text: Vec<u16>,
    pub labels: Vec<u8>,
    pub n_tags: u8,
    /// per character: per tag slot, optional (tag-name selector, extra char selector)
    pub tags: Vec<Vec<Option<(u16, u16)>>>,
    pub run_mode: u8,
}

pub const TAG_POOL: &[&str] = &[
    "N", "名詞", "N-x", "a/b", "x y", "A|B", "b\\c", "\\", "/", "-", "|", " ", "カセー", "𠀋", "é",
    "動詞-自立", "t", "/ /", "--", "a\\/b", "\\\\", "助詞", "ヨイ", "0", "名詞\u{3000}一般", "a\tb", "x\u{a0}y", "l\nm",
    "\u{2028}", "q\r", "\u{85}z", "接頭辞", "ぼく", "中", "ぜ", "丯丠", "上不", "\u{1002f}", "\u{15c}\u{17c}",
];

pub fn raw_sentence(max_len: usize, label_kinds: u8) -> impl Strategy<Value = RawSentence> {
    (
        palette_raw(2, 6),
        vec(any::<u16>(), 1..=max_len),
        vec(0u8..label_kinds, max_len),
        prop_oneof![3 => Just(0u8), 2 => Just(1u8), 2 => Just(2u8), 1 => Just(3u8)],
        vec(
            vec(prop::option::weighted(0.5, (any::<u16>(), any::<u16>())), 3),
            max_len,
        ),
        0u8..4,
    )
        .prop_map(|(palette, text, labels, n_tags, tags, run_mode)| RawSentence {
            palette,
            text,
            labels,
            n_tags,
            tags,
            run_mode,
        })
}

/// `tags_everywhere`: tags on any character (partial annotation) or mostly on token ends.
pub fn resolve_sentence(raw: &RawSentence, tags_everywhere: bool) -> oracle::RefSentence {
    let palette = resolve_palette(&raw.palette, true);
    let all = all_pool_chars();
    let chars: Vec<char> = raw.text.iter().map(|&i| resolve_char(i, &palette, &all)).collect();
    let n = chars.len();
    let mut labels: Vec<u8> = raw.labels[..n - 1].to_vec();
    // run-structured label vectors: stretch labels into runs
    match raw.run_mode {
        1 => {
            for i in 1..labels.len() {
                if i % 3 != 0 {
                    labels[i] = labels[i - 1];
                }
            }
        }
        2 => {
            // alternate word boundary / other to produce many short segments
            for i in 0..labels.len() {
                if i % 2 == 1 {
                    labels[i] = oracle::WB;
                }
            }
        }
        _ => {}
    }
    let n_tags = raw.n_tags as usize;
    let mut tags = vec![];
    for i in 0..n {
        let mut row = vec![];
        let at_token_end = i == n - 1 || labels[i] == oracle::WB;
        for j in 0..n_tags {
            let t = raw.tags[i][j].map(|(a, b)| {
                let mut s = TAG_POOL[pick(a, TAG_POOL.len())].to_string();
                if b & 3 == 0 {
                    s.push(palette[pick(b, palette.len())]);
                }
                s
            });
            if tags_everywhere || at_token_end || raw.tags[i][j].map_or(false, |(a, _)| a & 7 == 0)
            {
                row.push(t);
            } else {
                row.push(None);
            }
        }
        tags.push(row);
    }
    oracle::RefSentence {
        chars,
        labels,
        tags,
        n_tags,
    }
}

pub fn annotated_sentence(
    max_len: usize,
    label_kinds: u8,
    tags_everywhere: bool,
) -> impl Strategy<Value = oracle::RefSentence> {
    raw_sentence(max_len, label_kinds).prop_map(move |r| resolve_sentence(&r, tags_everywhere))
}

/// Deterministic annotated sentences at sizes random generation does not reach: lengths around
/// and beyond 65,535 characters, a single token of 70,000 characters, hundreds of tag columns, a
/// tag of 70,000 characters, thousands of one-character tokens. `label_kinds` 2: boundary /
/// non-boundary only, 3: also unknown; `tags_everywhere`: tags also on characters that do not
/// end a token.
pub fn scale_sentences(label_kinds: u8, tags_everywhere: bool) -> Vec<oracle::RefSentence> {
    use oracle::RefSentence;
    let pool = ['a', 'é', 'あ', '𠀋', '火', ' ', '/', '\\', '-', '|', 'b', 'ア', '1', '。'];
    let tagpool = ["名詞", "a/b", "x y", "q\\", "N-1", "|", "t"];
    let mk = |n: usize, period: usize, n_tags: usize, salt: usize| -> RefSentence {
        let chars: Vec<char> = (0..n).map(|i| pool[(i * 5 + i / 7 + salt) % pool.len()]).collect();
        let labels: Vec<u8> = (0..n.saturating_sub(1))
            .map(|i| {
                if period > 0 && (i + 1) % period == 0 {
                    1
                } else if label_kinds == 3 && (i * 13 + salt) % 97 == 0 {
                    2
                } else {
                    0
                }
            })
            .collect();
        let ends: std::collections::HashSet<usize> = oracle::ref_tokens(&labels.iter().map(|&l| if l == 2 { 0 } else { l }).collect::<Vec<u8>>()).iter().map(|t| t.end - 1).collect();
        let tags = (0..n)
            .map(|i| {
                if n_tags == 0 || !(tags_everywhere || ends.contains(&i)) || (i + salt) % 3 == 0 {
                    vec![]
                } else {
                    (0..n_tags).map(|j| if (i + j * 2 + salt) % 4 == 0 { None } else { Some(tagpool[(i + j) % tagpool.len()].to_string()) }).collect()
                }
            })
            .collect();
        RefSentence { chars, labels, tags, n_tags }
    };
    let mut v = vec![
        mk(65_535, 5, 2, 0),
        mk(65_536, 7, 1, 1),
        mk(65_537, 3, 3, 2),
        mk(70_000, 0, 1, 3),      // one token of 70,000 characters
        mk(70_000, 1, 0, 4),      // 70,000 one-character tokens
        mk(131_080, 11, 2, 5),
        mk(40, 4, 255, 6),
        mk(40, 4, 256, 7),
        mk(40, 4, 300, 8),
        mk(300, 17, 3, 9),
        mk(300, 64, 2, 10),
    ];
    // a tag of 70,000 characters (with delimiters inside)
    let mut long_tag = mk(12, 3, 2, 11);
    let big: String = (0..70_000).map(|i| ['t', '/', ' ', 'あ', '\\', '-', '|', '𠀋'][(i * 3 + i / 11) % 8]).collect();
    let last = long_tag.chars.len() - 1;
    long_tag.tags[last] = vec![Some(big), Some("z".into())];
    v.push(long_tag);
    v
}

// ------------------------------------------------------------------------------------------
// strings for parsers

/// Delimiter-dense random strings.
pub fn dense_string(max_len: usize, with_nul: bool) -> impl Strategy<Value = String> {
    let alphabet: Vec<char> = if with_nul {
        vec!['a', 'あ', '𠀋', ' ', '/', '\\', '-', '|', '\0', 'b']
    } else {
        vec!['a', 'あ', '𠀋', ' ', '/', '\\', '-', '|', 'b']
    };
    vec(any::<u16>(), 0..=max_len)
        .prop_map(move |v| v.iter().map(|&i| alphabet[pick(i, alphabet.len())]).collect())
}

/// Point mutations of a valid string.
pub fn mutate(base: String, muts: &[(u16, u16, u8)]) -> String {
    let mut cs: Vec<char> = base.chars().collect();
    let inject = [' ', '/', '\\', '-', '|', '\0', 'a', 'あ'];
    for &(pos, what, kind) in muts {
        if cs.is_empty() {
            cs.push(inject[pick(what, inject.len())]);
            continue;
        }
        let p = pick(pos, cs.len());
        match kind % 3 {
            0 => cs.insert(p, inject[pick(what, inject.len())]),
            1 => {
                cs.remove(p);
            }
            _ => {
                let c = cs[p];
                cs.insert(p, c);
            }
        }
    }
    cs.into_iter().collect()
}
