//! Mirror of vaporetto's on-disk model layout.
//!
//! `vaporetto::Model` has no public constructor; every model used by the checks is built by
//! encoding one of these structs with bincode's standard configuration behind the magic line and
//! handing the bytes to `Model::read` / `Model::read_slice` (public API only).

use bincode::{Decode, Encode};
use serde::{Deserialize, Serialize};

pub const MODEL_MAGIC: &[u8] = b"VaporettoTokenizer 0.5.0\n";

#[derive(Clone, Debug, PartialEq, Eq, Encode, Decode, Serialize, Deserialize)]
pub struct NgramSpec<T> {
    pub ngram: T,
    pub weights: Vec<i32>,
}

#[derive(Clone, Debug, PartialEq, Eq, Encode, Decode, Serialize, Deserialize)]
pub struct TagWeightSpec {
    pub rel_position: u8,
    pub weights: Vec<i32>,
}

#[derive(Clone, Debug, PartialEq, Eq, Encode, Decode, Serialize, Deserialize)]
pub struct TagNgramSpec<T> {
    pub ngram: T,
    pub weights: Vec<TagWeightSpec>,
}

#[derive(Clone, Debug, PartialEq, Eq, Encode, Decode, Serialize, Deserialize)]
pub struct WordSpec {
    pub word: String,
    pub weights: Vec<i32>,
    pub comment: String,
}

#[derive(Clone, Debug, PartialEq, Eq, Encode, Decode, Serialize, Deserialize)]
pub struct TagModelSpec {
    pub token: String,
    pub tags: Vec<Vec<String>>,
    pub char_ngrams: Vec<TagNgramSpec<String>>,
    pub type_ngrams: Vec<TagNgramSpec<Vec<u8>>>,
    pub bias: Vec<i32>,
}

#[derive(Clone, Debug, PartialEq, Eq, Encode, Decode, Serialize, Deserialize)]
pub struct ModelSpec {
    pub char_ngrams: Vec<NgramSpec<String>>,
    pub type_ngrams: Vec<NgramSpec<Vec<u8>>>,
    pub dict: Vec<WordSpec>,
    pub bias: i32,
    pub char_window: u8,
    pub type_window: u8,
    pub tag_models: Vec<TagModelSpec>,
}

impl Default for ModelSpec {
    fn default() -> Self {
        Self {
            char_ngrams: vec![],
            type_ngrams: vec![],
            dict: vec![],
            bias: 0,
            char_window: 1,
            type_window: 1,
            tag_models: vec![],
        }
    }
}

impl ModelSpec {
    /// Serialises the spec in the model file format.
    pub fn to_bytes(&self) -> Vec<u8> {
        let mut out = MODEL_MAGIC.to_vec();
        let body = bincode::encode_to_vec(self, bincode::config::standard()).expect("encode spec");
        out.extend_from_slice(&body);
        out
    }

    /// Decodes a model file; returns the spec and the number of bytes consumed.
    pub fn from_bytes(bytes: &[u8]) -> Result<(Self, usize), String> {
        if bytes.len() < MODEL_MAGIC.len() || &bytes[..MODEL_MAGIC.len()] != MODEL_MAGIC {
            return Err("bad magic".into());
        }
        let (spec, n): (Self, usize) =
            bincode::decode_from_slice(&bytes[MODEL_MAGIC.len()..], bincode::config::standard())
                .map_err(|e| format!("decode: {e}"))?;
        Ok((spec, MODEL_MAGIC.len() + n))
    }

    /// Builds the real model through the public reader.
    pub fn to_model(&self) -> Result<vaporetto::Model, String> {
        let bytes = self.to_bytes();
        vaporetto::Model::read(bytes.as_slice()).map_err(|e| format!("Model::read: {e}"))
    }

    /// Mirror-decodes a real model.
    pub fn from_model(model: &vaporetto::Model) -> Result<Self, String> {
        let bytes = model.to_vec().map_err(|e| format!("Model::to_vec: {e}"))?;
        let (spec, n) = Self::from_bytes(&bytes)?;
        if n != bytes.len() {
            return Err(format!("mirror consumed {n} of {} bytes", bytes.len()));
        }
        Ok(spec)
    }

    pub fn n_tags(&self) -> usize {
        self.tag_models.iter().map(|t| t.tags.len()).max().unwrap_or(0)
    }
}

/// Self-test of the mirror against the golden model file of the repository (harness-only: the
/// code under test is not involved, so a failure here can never be a property violation).
/// Failure means the harness cannot speak the model format (exit 2, never a violation).
pub fn self_test() -> Result<(), String> {
    let golden = std::fs::read("/repo/resources/model.bin")
        .map_err(|e| format!("cannot read /repo/resources/model.bin: {e}"))?;
    let (spec, n) = ModelSpec::from_bytes(&golden)?;
    if n != golden.len() {
        return Err(format!("golden: consumed {n} of {}", golden.len()));
    }
    if spec.to_bytes() != golden {
        return Err("golden: mirror re-encoding differs".into());
    }
    Ok(())
}
