//! Transcript worker for C13: reads requests, predicts with the vaporetto build it was compiled
//! against, writes results. Only `Model::read_slice` is used (available without `std`).
//!
//! request : u32 n | model bytes (u32 len + bytes) | u8 predict_tags | u32 n_texts | texts (u32 len + utf8)
//! response: u32 n | twice (original predictor, then the predictor after serialize/deserialize) per text: u8 status (0 ok, 1 error) | scores (u32 n + i32*) | labels (u32 n + u8*)
//!           | u8 has_tags | [u32 n_tags | tags (u32 n + (u8 present + str)*) | cands (tokens -> cats -> (str, i32))]

use std::io::{Read, Write};

use vaporetto::{CharacterBoundary, CharacterType, Model, Predictor, Sentence};
use vaporetto_rules::sentence_filters::{ConcatGraphemeClustersFilter, KyteaWsConstFilter, SplitLinebreaksFilter};
use vaporetto_rules::SentenceFilter;

/// Writers, token iteration and the post-filters on the predicted (and tagged) sentence. The
/// output is not transmitted: this part exists for the builds with run-time checks (C18), where
/// only "no crash" counts.
fn exercise(s: &mut Sentence) {
    let mut buf = String::new();
    s.write_tokenized_text(&mut buf);
    s.write_partial_annotation_text(&mut buf);
    let _ = s.iter_tokens().map(|t| t.surface().len() + t.tags().len()).sum::<usize>();
    let filters: [Box<dyn SentenceFilter>; 5] = [
        Box::new(KyteaWsConstFilter::new(CharacterType::Digit)),
        Box::new(KyteaWsConstFilter::new(CharacterType::Other)),
        Box::new(KyteaWsConstFilter::new(CharacterType::Kanji)),
        Box::new(SplitLinebreaksFilter),
        Box::new(ConcatGraphemeClustersFilter),
    ];
    for f in filters {
        f.filter(s);
        s.write_tokenized_text(&mut buf);
    }
    let _ = s.iter_tokens().count();
}

fn rd_u32(b: &[u8], p: &mut usize) -> u32 {
    let v = u32::from_le_bytes(b[*p..*p + 4].try_into().unwrap());
    *p += 4;
    v
}

fn rd_bytes<'a>(b: &'a [u8], p: &mut usize) -> &'a [u8] {
    let n = rd_u32(b, p) as usize;
    let s = &b[*p..*p + n];
    *p += n;
    s
}

fn wr_u32(o: &mut Vec<u8>, v: u32) {
    o.extend_from_slice(&v.to_le_bytes());
}

fn wr_str(o: &mut Vec<u8>, s: &str) {
    wr_u32(o, s.len() as u32);
    o.extend_from_slice(s.as_bytes());
}

fn handle(req: &[u8]) -> Vec<u8> {
    let mut p = 0;
    let model_bytes = rd_bytes(req, &mut p);
    let predict_tags = req[p] != 0;
    p += 1;
    let n_texts = rd_u32(req, &mut p);
    let mut texts = vec![];
    for _ in 0..n_texts {
        texts.push(String::from_utf8(rd_bytes(req, &mut p).to_vec()).unwrap());
    }
    let mut out = vec![];
    let tags_compiled = cfg!(feature = "tag-prediction");
    let predictor = Model::read_slice(model_bytes)
        .map_err(|e| format!("{e}"))
        .and_then(|(m, _)| Predictor::new(m, predict_tags && tags_compiled).map_err(|e| format!("{e}")));
    #[allow(unused_mut)]
    let mut predictor = match predictor {
        Ok(p) => p,
        Err(e) => {
            for _ in 0..2 * n_texts {
                out.push(1u8);
                wr_str(&mut out, &e);
            }
            return out;
        }
    };
    #[cfg(feature = "tag-prediction")]
    if predict_tags {
        predictor.store_tag_scores(true);
    }
    // second variant: the same predictor after a serialise/deserialise round trip in THIS build
    let bytes = predictor.serialize_to_vec().expect("serialize_to_vec");
    #[allow(unused_mut)]
    let (mut reloaded, _) = unsafe { Predictor::deserialize_from_slice_unchecked(&bytes) }.expect("deserialize");
    #[cfg(feature = "tag-prediction")]
    if predict_tags {
        reloaded.store_tag_scores(true);
    }
    run_texts(&predictor, &texts, predict_tags, &mut out);
    run_texts(&reloaded, &texts, predict_tags, &mut out);
    out
}

#[allow(unused_variables)]
fn run_texts(predictor: &Predictor, texts: &[String], predict_tags: bool, out: &mut Vec<u8>) {
    for t in texts.iter().cloned() {
        let mut s = match Sentence::from_raw(t) {
            Ok(s) => s,
            Err(e) => {
                out.push(1u8);
                wr_str(out, &format!("{e}"));
                continue;
            }
        };
        predictor.predict(&mut s);
        out.push(0u8);
        wr_u32(out, s.boundary_scores().len() as u32);
        for &sc in s.boundary_scores() {
            out.extend_from_slice(&sc.to_le_bytes());
        }
        wr_u32(out, s.boundaries().len() as u32);
        for &b in s.boundaries() {
            out.push(match b {
                CharacterBoundary::NotWordBoundary => 0,
                CharacterBoundary::WordBoundary => 1,
                CharacterBoundary::Unknown => 2,
            });
        }
        #[cfg(feature = "tag-prediction")]
        if predict_tags {
            s.fill_tags();
            out.push(1u8);
            wr_u32(out, s.n_tags() as u32);
            wr_u32(out, s.tags().len() as u32);
            for t in s.tags() {
                match t {
                    Some(t) => {
                        out.push(1);
                        wr_str(out, t);
                    }
                    None => out.push(0),
                }
            }
            let toks: Vec<_> = s.iter_tokens().collect();
            wr_u32(out, toks.len() as u32);
            for tok in toks {
                let cands = tok.tag_candidates();
                wr_u32(out, cands.len() as u32);
                for c in cands {
                    wr_u32(out, c.len() as u32);
                    for (name, score) in c {
                        wr_str(out, name);
                        out.extend_from_slice(&score.to_le_bytes());
                    }
                }
            }
            exercise(&mut s);
            continue;
        }
        out.push(0u8);
        exercise(&mut s);
    }
}

fn main() {
    let stdin = std::io::stdin();
    let stdout = std::io::stdout();
    let (mut i, mut o) = (stdin.lock(), stdout.lock());
    loop {
        let mut len = [0u8; 4];
        if i.read_exact(&mut len).is_err() {
            return;
        }
        let mut req = vec![0u8; u32::from_le_bytes(len) as usize];
        if i.read_exact(&mut req).is_err() {
            return;
        }
        // a panic inside the library is reported as a one-byte response 0xFF
        let resp = std::panic::catch_unwind(|| handle(&req)).unwrap_or_else(|_| vec![0xFF]);
        o.write_all(&(resp.len() as u32).to_le_bytes()).unwrap();
        o.write_all(&resp).unwrap();
        o.flush().unwrap();
    }
}
