#!/usr/bin/env python3
"""mkmutant.py NAME FILE OLD NEW [FILE OLD NEW ...] — writes /verif/mutants/NAME.patch (a git diff of /repo
with the replacements applied) and restores /repo. FILE is relative to /repo."""
import sys, subprocess, os
name = sys.argv[1]
args = sys.argv[2:]
assert len(args) % 3 == 0
os.chdir('/repo')
assert subprocess.run(['git','status','--porcelain'],capture_output=True,text=True).stdout.strip()=='', '/repo not clean'
try:
    for i in range(0, len(args), 3):
        f, old, new = args[i:i+3]
        s = open(f).read()
        assert s.count(old) >= 1, (name, f, 'pattern not found')
        open(f, 'w').write(s.replace(old, new, 1))
    d = subprocess.run(['git','diff'],capture_output=True,text=True).stdout
    open('/verif/mutants/'+name+'.patch','w').write(d)
    print(name, len(d), 'bytes')
finally:
    subprocess.run(['git','checkout','--','.'])
