#!/bin/bash
# Runs every registered check of MANIFEST.json (quick or thorough) on the current tree and
# validates the evidence files. usage: tools/run_all.sh [quick|thorough] [ID ...]
cd /verif
tier=${1:-quick}; shift
ids=("$@")
if [ ${#ids[@]} -eq 0 ]; then ids=($(python3 -c "import json;print(' '.join(c['property_id'] for c in json.load(open('/verif/MANIFEST.json'))['checks']))")); fi
rc=0
for id in "${ids[@]}"; do
  start=$(date +%s.%N)
  out=$(./check "$id" "$tier" 2>&1); e=$?
  dur=$(python3 -c "import time;print(f'{time.time()-$start:.1f}')")
  echo "$id exit=$e ${dur}s $(echo "$out" | grep -E "^$id (quick|thorough):" )"
  if [ $e -ne 0 ]; then echo "$out" | grep -E "VIOLATION|KNOWN|reason|INCONCLUSIVE|BUILD" | head -5; rc=1; fi
done
python3-vt - <<'P'
import json, jsonschema, glob
s=json.load(open('/root/.vp/EVIDENCE.schema.json'))
m=json.load(open('/verif/MANIFEST.json'))
for c in m['checks']:
    f=c['evidence_file']
    try:
        jsonschema.validate(json.load(open(f)), s)
    except Exception as e:
        print('EVIDENCE INVALID', f, str(e)[:200])
print('evidence validated')
P
exit $rc
