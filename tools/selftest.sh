#!/bin/bash
# Sensitivity self-test: apply each mutant patch to /repo, run the owning quick check, expect a
# VIOLATION (exit 1), then remove the patch again. Development aid, not a registered check.
# usage: tools/selftest.sh [patch ...]     (default: all of /verif/mutants/*.patch)
# The property id is the part of the file name before the first '-'.
set -u
cd /verif
if [ -n "$(git -C /repo status --porcelain)" ]; then echo "/repo is not clean; refusing" >&2; exit 2; fi
patches=("$@"); [ ${#patches[@]} -eq 0 ] && patches=(/verif/mutants/*.patch)
fail=0
# evidence files are rewritten by every run; keep the clean-tree ones
EVBAK=$(mktemp -d /verif/target/evidence-bak-XXXXXX); cp -a /verif/evidence/. "$EVBAK"/ 2>/dev/null
restore_evidence() { rm -rf /verif/evidence; mkdir -p /verif/evidence; cp -a "$EVBAK"/. /verif/evidence/ 2>/dev/null; rm -rf "$EVBAK"; }
for p in "${patches[@]}"; do
  p=$(readlink -f "$p")
  name=$(basename "$p" .patch); id=${name%%-*}
  # /verif/seeded/<ID>[-n]/patch.diff: the id is the directory name
  if [[ "$p" == */seeded/*/patch.diff ]]; then name=$(basename "$(dirname "$p")"); id=${name%%-*}; name="seeded-$name"; fi
  [ -n "${SELFTEST_IDS:-}" ] && id="$SELFTEST_IDS"
  ids="$id"
  # "C05+C08-xyz.patch" style: several owning checks
  if [[ "$id" == *+* ]]; then ids="${id//+/ }"; fi
  if ! git -C /repo apply "$p" 2>/dev/null; then echo "SKIP  $name (patch does not apply)"; fail=1; continue; fi
  trap 'git -C /repo apply -R "$p" 2>/dev/null' EXIT
  for i in $ids; do
    start=$(date +%s)
    out=$(VERIF_SEED=${VERIF_SEED:-0} ./check "$i" quick 2>&1); rc=$?
    dur=$(( $(date +%s) - start ))
    if [ $rc -eq 1 ] && echo "$out" | grep -q "^VIOLATION property=$i "; then
      echo "CAUGHT $name by $i (${dur}s): $(echo "$out" | grep -A1 '^VIOLATION' | tail -1 | cut -c1-160)"
    else
      echo "MISSED $name by $i (exit $rc, ${dur}s)"; fail=1
      [ $rc -eq 2 ] && echo "$out" | tail -5
    fi
  done
  git -C /repo apply -R "$p"; trap - EXIT
  if [ -n "$(git -C /repo status --porcelain)" ]; then echo "/repo not clean after $name" >&2; exit 2; fi
done
rm -f /verif/replays/*.json
restore_evidence
exit $fail
