#!/usr/bin/env python3
"""Regenerates /verif/MANIFEST.json from the table below and validates it against the schema."""
import json, sys

BASELINE_OFF = ("cd /repo && cargo nextest run --workspace --no-fail-fast --offline "
                "|| cargo test --workspace --no-fail-fast --offline")

# id -> (built?, engine, technique, level text, level note, design ref)
CHECKS = {}

def add(pid, engine, technique, text, note, thorough=True):
    CHECKS[pid] = dict(engine=engine, technique=technique, text=text, note=note, thorough=thorough)

add("C01", "proptest-sharded",
    "property-based testing: generated models x texts against a brute-force reference model (RefScore)",
    "Generated-input search: thousands of well-formed models (built through the public reader from a mirror "
    "encoding) x texts; every boundary score and decision is compared with an independent brute-force "
    "pointwise linear model. Exploration only: holds on everything generated, no claim of absence.",
    "Trusted: proptest, bincode (mirror uses the same codec), CharacterType::get_type as definition of types. "
    "Window 255 only with small models.")
add("C02", "enumeration+proptest-sharded",
    "exhaustive small-scope enumeration of label vectors + property-based testing against a reference segmentation",
    "All 3^(n-1) label vectors for n<=9 over three texts are enumerated (exhaustive for that sub-space) and random "
    "longer sentences are generated; the token list, spans, surfaces, tags and tokenized writer are compared with a "
    "reference segmentation.",
    "Exhaustive only for n<=9 and the three listed texts; beyond that exploration.")

PLANNED = {
}

def main():
    props = [json.loads(l) for l in open('/verif/properties.jsonl')]
    checks, na = [], []
    for p in props:
        pid = p['id']
        if pid in CHECKS:
            c = CHECKS[pid]
            e = {
                "property_id": pid,
                "quick_cmd": f"./check {pid} quick",
                "evidence_file": f"/verif/evidence/{pid}.json",
                "replay_cmd_template": f"./check {pid} --replay {{path}}",
                "engine": c['engine'],
                "level_claimed": {"category": "exploration", "text": c['text'], "design_ref": f"DESIGN.md §3 {pid}"},
                "level_note": c['note'],
                "technique": c['technique'],
            }
            if c['thorough']:
                e["thorough_cmd"] = f"./check {pid} thorough"
            checks.append(e)
        else:
            na.append({"property_id": pid, "reason": PLANNED.get(pid, "check not built yet in this revision of /verif (planned, see DESIGN.md §3); not claimed until it runs green and has caught a seeded mutant")})
    m = {
        "version": 1,
        "setup_cmd": "./setup.sh",
        "hooks": {
            "guard": "cargo feature verif-hooks (crate vaporetto)",
            "enable": "the harness crates depend on /repo/vaporetto by path with features = [\"kytea\", \"train\", \"verif-hooks\"]",
            "baseline_off_cmd": BASELINE_OFF,
            "source_commits": ["957f69e"],
            "add_only": True,
        },
        "engines": [
            {"name": "proptest-sharded", "path": "/verif/harness/vcommon/src/engine.rs",
             "serves_properties": sorted(CHECKS.keys()),
             "kind_free_text": "proptest 1.11 TestRunner driven from a binary, 8/16 seeded shards, shrinking to a JSON replay file; exhaustive enumerations for small finite sub-spaces"},
        ],
        "checks": checks,
        "not_applicable": na,
        "notes": "Technique family: property-based testing and fuzzing. Every run is a function of /repo's working tree and VERIF_SEED. Exit 2 = could not decide (build failure, watchdog), never a violation.",
    }
    json.dump(m, open('/verif/MANIFEST.json', 'w'), indent=1, ensure_ascii=False)
    try:
        import jsonschema
        jsonschema.validate(m, json.load(open('/root/.vp/MANIFEST.schema.json')))
        print("MANIFEST.json valid;", len(checks), "checks,", len(na), "not claimed")
    except ImportError:
        print("jsonschema not available; wrote MANIFEST.json unvalidated")

if __name__ == '__main__':
    main()
