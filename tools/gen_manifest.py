#!/usr/bin/env python3
"""Regenerates /verif/MANIFEST.json from the table below and validates it against the schema."""
import json, sys

BASELINE_OFF = ("cd /repo && cargo nextest run --workspace --no-fail-fast --offline "
                "|| cargo test --workspace --no-fail-fast --offline")

# id -> (built?, engine, technique, level text, level note, design ref)
CHECKS = {}

def add(pid, engine, technique, text, note, thorough=True):
    CHECKS[pid] = dict(engine=engine, technique=technique, text=text, note=note, thorough=thorough)

add("C01", "proptest-sharded",
    "property-based testing: generated models x texts against a brute-force reference model (RefScore)",
    "Generated-input search: thousands of well-formed models (built through the public reader from a mirror "
    "encoding) x texts; every boundary score and decision is compared with an independent brute-force "
    "pointwise linear model. Exploration only: holds on everything generated, no claim of absence.",
    "Trusted: proptest, bincode (mirror uses the same codec), CharacterType::get_type as definition of types. "
    "Window 255 only with small models.")
add("C02", "enumeration+proptest-sharded",
    "exhaustive small-scope enumeration of label vectors + property-based testing against a reference segmentation",
    "All 3^(n-1) label vectors for n<=9 over three texts are enumerated (exhaustive for that sub-space) and random "
    "longer sentences are generated; the token list, spans, surfaces, tags and tokenized writer are compared with a "
    "reference segmentation.",
    "Exhaustive only for n<=9 and the three listed texts; beyond that exploration.")

add("C03", "proptest-sharded",
    "property-based testing: round-trip write->parse on generated sentences and idempotence on generated accepted strings",
    "Generated fully segmented sentences (tags/surfaces containing every delimiter, multi-byte) are written and re-parsed and must come back equal up to trailing absent tags; strings from four generator classes that the parser accepts must reach a write/parse fixed point.",
    "Oracle is the round-trip relation itself plus UTF-8 validity; no claim beyond the generated cases.")
add("C04", "proptest-sharded",
    "property-based testing: round-trip write->parse of the partial-annotation format on generated sentences",
    "Generated sentences with any label vector and tags (including the format's own delimiters) on any character are written and re-parsed; text, every label and every tag row must be equal up to trailing absent tags.",
    "Round-trip relation only; exploration.")
add("C05", "proptest-sharded",
    "property-based testing + stateful histories: totality, differential against reference parsers, state invariants",
    "Generated strings (valid, mutated, delimiter-dense with NUL, arbitrary Unicode) through all six entry points, compared with reference parsers written from the documentation where it determines the result; generated call histories on one sentence compared step by step with freshly constructed sentences.",
    "Acceptance is compared only where documented (lone trailing backslash, NUL inside a partial-annotation tag are left open).")
add("C06", "proptest-sharded",
    "property-based testing: generated tag models x texts x boundary edits against a brute-force per-token classifier (RefTags)",
    "Generated models with tag models, boundaries predicted then edited (incl. unknown), optional earlier tagging by another predictor; tags, n_tags and stored candidate scores compared with an independent reference.",
    "Exploration; relative positions limited to 0..=window as the property states.")
add("C07", "proptest-sharded+fault-enumeration",
    "property-based testing of the round trip + exhaustive enumeration of truncation points and injected I/O faults per generated file",
    "Generated model files and the golden file: byte-identical round trip through read/read_slice/write/to_vec, identical predictions, exact trailing bytes; every proper prefix, header variant, reader fault position and writer fault position of each file must give Err without panic.",
    "Per file the prefix/fault positions are enumerated completely (strided only in the middle of files > 4 KiB); files themselves are sampled.")
add("C08", "proptest-sharded+thread-stress",
    "stateful property-based testing: differential fresh-vs-reused sentence over generated histories; multi-thread differential stress on a shared predictor",
    "Generated histories of updates/predicts/fill_tags/reset_tags/filters/edits over six predictors of two models followed by the documented final segment; full observation compared with a fresh sentence, also after every prediction and every fill_tags inside the history (switch histories: several tag predictors on one loaded text). One predictor shared by 8/16 threads compared with the single-threaded run; Send+Sync asserted at compile time.",
    "The harness does not own the thread schedule (nothing to instrument in Predictor): a race needing a rare interleaving can be missed.")
add("C14", "proptest-sharded",
    "property-based testing: round-trip differential original vs deserialised predictor, tied to the reference model",
    "Generated models -> predictors (all scorer variants) -> serialize -> deserialize (+ second generation) with trailing bytes; all three predictors must agree with each other and with RefScore/RefTags on every text; rest slice exact.",
    "deserialize_from_slice_unchecked is only fed self-produced bytes, as the property states.")
add("C15", "proptest-sharded",
    "property-based testing: reference rule + frame condition + idempotence on generated sentences",
    "Generated sentences (any labels incl. unknown, any tags) over a grapheme-cluster-heavy pool; after-state compared with an independent reference rule applied to the before-state; text/types/n_tags/scores untouched; f(f(s)) = f(s).",
    "unicode-segmentation is trusted for what a grapheme cluster is.")

add("C09", "proptest-sharded+hooks",
    "property-based testing: generated training configurations x corpora; trained predictor against a reference model built from the recorded learner coefficients (verif-hooks) and reference feature extraction",
    "Real liblinear training on tiny generated corpora for all solvers and window/n-gram combinations (differing windows, n > window, window 0, dictionaries with bucket overflow); every score of the trained predictor must equal recorded bias + recorded weights of the reference features; stored vector lengths must match the n-gram's own window.",
    "Needs cargo feature verif-hooks (records quantised coefficients inside Trainer::train). liblinear trusted as a function of its inputs within one call.")
add("C10", "proptest-sharded+hooks",
    "property-based testing: trainer's example store (verif-hooks accessor) against reference feature extraction, checked after every added sentence",
    "Generated corpora mixing tokenized, partial and unannotated sentences x window/n-gram sizes incl. 0 and n > window x dictionaries and buckets; the stored examples must equal one reference example per annotated boundary with label and feature multiset. Sub-check learner-input hands the stored problem (hook Trainer::verif_problem) to liblinear itself and requires the quantised solution Trainer::train records, so that nothing can happen to the examples between the store and the learner.",
    "Needs cargo feature verif-hooks (read-only Trainer::verif_examples, Trainer::verif_problem).")
add("C11", "proptest-sharded",
    "property-based testing: totality sweep over training configurations and degenerate corpora with usability invariants on every returned model",
    "Parameters from {0,1,2,3,4,7}, all solvers, corpora incl. empty / single-class / all-unknown / tagged / tag dictionary: no panic in new/add_example/train; every returned model round-trips, has 16-bit weights, is accepted by Predictor::new with and without tags and predicts/tags arbitrary text. Size cases: tokens and dictionary words of 127..70,000 characters, a dictionary giving a model that decodes to > 100 MB. The same generated configurations also go through the shipped train program (files in, model.zst out).",
    "A liblinear hang is mapped to exit 2 by a watchdog. The train tool is rebuilt from /repo into /verif/target/repo-bins by the check script.")
add("C12", "proptest-sharded+hooks",
    "property-based testing: set equality of candidate lists against a reference reading of the corpus, behavioural clauses on predictions, stored scores against the recorded classifier (verif-hooks) applied to reference tag features",
    "Generated tagged corpora with repeated, ambiguous tokens and tag dictionaries; mirror-decoded candidate lists, vector sizes, predictions on corpus and fresh sentences and every stored candidate score are compared with independent references; the feature universe of each recorded classifier must equal the documented tag features of its training occurrences.",
    "Needs cargo feature verif-hooks for the score clause; tokens present untagged in the corpus AND in the dictionary are left unspecified.")

add("C19", "proptest-sharded+real-CLI",
    "property-based testing: metamorphic score-delta relation for replace_dictionary and a dump/replace round trip through the real manipulate_model binary",
    "Generated models x replacement dictionaries x texts for the library relation (score delta == RefDict(new) - RefDict(old), nothing else changes); generated CSV-hostile dictionaries through the real tool: dump -> replace with untouched CSV -> byte-identical model; wrong weight counts rejected; dump and replacement in one invocation.",
    "The tool is rebuilt from /repo into /verif/target/repo-bins by the check script; csv and zstd crates are part of the tool under test.")
add("C20", "proptest-sharded+real-CLI",
    "property-based testing: reference output assembled from library calls vs the real predict/evaluate binaries over generated models, input streams and flag sets; metamorphic mode equivalence",
    "Generated models (.zst) x input streams (empty lines, NUL, delimiters, half-width characters) x all 16 flag subsets x wsconst lists for predict; generated tokenized references (tagged and untagged) x metrics x flags for evaluate; stdout compared with the library pipeline, exit status and panics checked.",
    "Under-specified spots are accepted in all reasonable variants (see evidence assumptions). Sub-check train runs the shipped train program against the same pipeline performed through the library and compares the discrete content of the two models (weights differ in the last digits between processes because of a per-process hash seed).")

add("C16", "enumeration+proptest-sharded (separate binary vcheck-tantivy)",
    "exhaustive enumeration of all Unicode scalar values for the normaliser + property-based testing of the Tantivy token stream against the library pipeline (invariants + differential)",
    "Normaliser: all 1,112,064 scalar values enumerated (one character out, idempotent, identity outside the pinned 96 table sources) plus random strings (character-wise). Token stream: generated models x texts x wsconst strings; offsets on char boundaries, gap-free tiling of the original text, original substrings, consecutive positions, break set equal to normalise->predict->line-break filter->configured filters.",
    "Known finding tantivy:nul-in-text (U+0000 panics) is excluded from the main generator by construction and probed separately. Expected breaks are computed from library parts decided by C01/C15.")
add("C17", "proptest-sharded+prefix-enumeration",
    "property-based testing: generated structured KyTea files against a reference converter (RefKytea) + exhaustive enumeration of every proper prefix per file",
    "The harness's own KyTea writer/reader (validated byte-identically on resources/kytea-model.bin) produces structured files with shuffled tries, cut entries, skipped 0x04 letters, 0-8 member dictionaries, tag slots and sub-word dictionaries; the mirror-decoded converted model must equal the reference conversion and predict as RefScore dictates; every proper prefix must give Err (a cut inside the unread tail of a real file may be accepted only with an identical model).",
    "The L/I/R slot order inside dict_vec is pinned from the converter (no KyTea source offline). Arbitrary corrupt files are outside the property. The shipped convert_kytea_model program (rebuilt from /repo by the check script) is run on generated files as well and its output compared with the same reference.")

add("C13", "proptest-sharded+worker-processes",
    "property-based testing: differential across one worker process per vaporetto feature subset (7 quick / 48 thorough builds), every build tied to the reference model",
    "Generated models (with tag models) x texts are sent to worker binaries compiled against each feature subset of {std, cache-type-score, fix-weight-length, tag-prediction, charwise-pma} (+ portable-simd on nightly); every build's scores/boundaries and every tag-capable build's tags and tag scores must equal RefScore/RefTags.",
    "Workers are rebuilt from /repo by the check script (tools/build_workers.sh). Quick compares 7 subsets, thorough all 48.")
add("C18", "proptest-sharded in an ASan + debug-assertions build (+ libFuzzer in thorough)",
    "property-based testing and coverage-guided fuzzing in builds where unchecked preconditions are checked: AddressSanitizer, debug assertions (guards of get_unchecked / is_char_boundary) and the standard library's unsafe-precondition checks",
    "The generators and oracles of C01/C06/C08/C14/C15/C03/C04 are re-executed in a nightly build with -Zsanitizer=address -C debug-assertions=on; a supervisor turns an abort into a violation with the traced case. Sub-check feature-configurations sends generated models x texts to one worker per vaporetto feature subset compiled with debug assertions (predict, fill_tags, serialise + reload, writers, filters); a dying or panicking worker is a violation. Thorough adds a libFuzzer campaign (byte decoder -> same raw generators, oracle in the target).",
    "AddressSanitizer sweeps cover the default feature set; the other feature subsets (7 quick / 48 thorough) run the same kind of workload in worker processes compiled with debug assertions (checked unsafe preconditions, no AddressSanitizer). Needs the nightly toolchain of the image.")

PLANNED = {
}

def main():
    props = [json.loads(l) for l in open('/verif/properties.jsonl')]
    checks, na = [], []
    for p in props:
        pid = p['id']
        if pid in CHECKS:
            c = CHECKS[pid]
            e = {
                "property_id": pid,
                "quick_cmd": f"./check {pid} quick",
                "evidence_file": f"/verif/evidence/{pid}.json",
                "replay_cmd_template": f"./check {pid} --replay {{path}}",
                "engine": c['engine'],
                "level_claimed": {"category": "exploration", "text": c['text'], "design_ref": f"DESIGN.md §3 {pid}"},
                "level_note": c['note'],
                "technique": c['technique'],
            }
            if c['thorough']:
                e["thorough_cmd"] = f"./check {pid} thorough"
            checks.append(e)
        else:
            na.append({"property_id": pid, "reason": PLANNED.get(pid, "check not built yet in this revision of /verif (planned, see DESIGN.md §3); not claimed until it runs green and has caught a seeded mutant")})
    m = {
        "version": 1,
        "setup_cmd": "./setup.sh",
        "hooks": {
            "guard": "cargo feature verif-hooks (crate vaporetto)",
            "enable": "the harness crates depend on /repo/vaporetto by path with features = [\"kytea\", \"train\", \"verif-hooks\"]",
            "baseline_off_cmd": BASELINE_OFF,
            "source_commits": ["957f69e", "c03a278"],
            "add_only": True,
        },
        "engines": [
            {"name": "proptest-sharded", "path": "/verif/harness/vcommon/src/engine.rs",
             "serves_properties": sorted(CHECKS.keys()),
             "kind_free_text": "proptest 1.11 TestRunner driven from a binary, 8/16 seeded shards, shrinking to a JSON replay file; exhaustive enumerations for small finite sub-spaces"},
            {"name": "libfuzzer-cargo-fuzz", "path": "/verif/harness/fuzz",
             "serves_properties": ["C05", "C17", "C18"],
             "kind_free_text": "cargo-fuzz 0.13 / libFuzzer on nightly with ASan + debug assertions; bytes decoded into the raw generator structures (vcommon::bytes), oracle inside the target; thorough tiers only, fixed -runs"},
            {"name": "feature-subset-workers", "path": "/verif/harness/vworker",
             "serves_properties": ["C13", "C18"],
             "kind_free_text": "one transcript worker binary per vaporetto feature subset, length-prefixed stdin/stdout protocol; built a second time with debug assertions for C18"},
        ],
        "checks": checks,
        "not_applicable": na,
        "notes": "Technique family: property-based testing and fuzzing. Every run is a function of /repo's working tree and VERIF_SEED. Exit 2 = could not decide (build failure, watchdog), never a violation.",
    }
    json.dump(m, open('/verif/MANIFEST.json', 'w'), indent=1, ensure_ascii=False)
    try:
        import jsonschema
        jsonschema.validate(m, json.load(open('/root/.vp/MANIFEST.schema.json')))
        print("MANIFEST.json valid;", len(checks), "checks,", len(na), "not claimed")
    except ImportError:
        print("jsonschema not available; wrote MANIFEST.json unvalidated")

if __name__ == '__main__':
    main()
