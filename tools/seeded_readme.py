#!/usr/bin/env python3
"""Regenerates the table in seeded/README.md from the meta.json files (text around it is kept)."""
import json, os, re
root = "/verif/seeded"
def key(d):
    m = re.match(r"C(\d+)(?:-(\d+))?$", d)
    return (int(m.group(1)), int(m.group(2) or 1))
dirs = sorted([d for d in os.listdir(root) if re.match(r"C\d+(-\d+)?$", d)], key=key)
rows = ["| id | change | needs | outcome |", "|----|--------|-------|---------|"]
for d in dirs:
    m = json.load(open(os.path.join(root, d, "meta.json")))
    cut = lambda s, n: (s[:n] + " ...") if len(s) > n else s
    esc = lambda s: s.replace("|", "\\|").replace("\n", " ")
    rows.append(f"| {d} | {esc(cut(m['what_changed'], 260))} | {esc(cut(m['needs_to_manifest'], 200))} | {esc(cut(m['result'], 260))} |")
p = os.path.join(root, "README.md")
s = open(p).read()
a = s.index("| id | change | needs | outcome |")
b = s.index("\nOutcome summary")
s = s[:a] + "\n".join(rows) + "\n" + s[b:]
open(p, "w").write(s)
print(len(dirs), "entries")
