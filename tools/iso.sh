#!/bin/bash
# Development aid (not used by any registered command): runs a command in a private mount
# namespace in which /repo and /verif are private COPIES of the real directories, so that seeded
# changes / mutants can be applied to "/repo" and checks run against them while other runs (and
# edits) use the real trees. Everything written is discarded afterwards.
# (Copy-on-write overlays were tried first; they misbehave as soon as the real trees change
# underneath them, which is exactly what happens during development.)
# usage: tools/iso.sh <command> [args...]        (cwd inside: /verif)
set -u
D=$(mktemp -d /tmp/iso-XXXXXX)
cp -a /repo "$D/repo" || { rm -rf "$D"; exit 2; }
# (the real /verif may be building at this moment: files that vanish while being copied are fine)
rsync -a --exclude 'incremental' --exclude 'target/tmp' --exclude 'target/iso-*' /verif/ "$D/verif/"; rc=$?
if [ $rc -ne 0 ] && [ $rc -ne 24 ]; then echo "iso: copying /verif failed ($rc)" >&2; rm -rf "$D"; exit 2; fi
git -C "$D/repo" worktree prune >/dev/null 2>&1
unshare -m bash -c '
  D=$1; shift
  mount --bind $D/repo /repo || exit 2
  mount --bind $D/verif /verif || exit 2
  cd /verif && "$@"
' iso "$D" "$@"
rc=$?
rm -rf "$D"
exit $rc
