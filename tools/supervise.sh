#!/bin/bash
# Runs a check binary and turns an abnormal death of the process (SIGSEGV, SIGABRT, sanitizer
# exit) into a VIOLATION with the case that was executing. The code under test contains unchecked
# memory operations, so a broken tree can crash the checking process itself; a crash must not be
# mistaken for "could not decide".
# usage: tools/supervise.sh <binary> <ID> quick|thorough | <binary> <ID> --replay FILE
set -u
BIN=$1; ID=$2; shift 2
normal() { [ "$1" -eq 0 ] || [ "$1" -eq 1 ] || [ "$1" -eq 2 ]; }
T=/verif/target/supervise/$ID; mkdir -p "$T" /verif/replays
if [ "${1:-}" = "--replay" ]; then
  f=$(readlink -f "${2:?replay file}")
  "$BIN" "$ID" --replay "$f" 2>"$T/replay.err"; rc=$?
  if normal $rc; then cat "$T/replay.err" >&2; exit $rc; fi
  echo "VIOLATION property=$ID replay=$f"
  echo "  process died (exit $rc) while executing the case: $(grep -m1 -E 'ERROR: AddressSanitizer|unsafe precondition|panicked' "$T/replay.err" | cut -c1-200)"
  exit 1
fi
"$BIN" "$ID" "$@" 2>"$T/run.err"; rc=$?
if normal $rc; then [ -s "$T/run.err" ] && cat "$T/run.err" >&2; exit $rc; fi
# abnormal death: run again with case tracing to find the case that was executing
rm -f "$T"/current-*.json
VERIF_TRACE_CASES="$T" "$BIN" "$ID" "$@" >/dev/null 2>"$T/run2.err"; rc2=$?
reason=$(grep -h -m1 -E 'ERROR: AddressSanitizer|unsafe precondition|panicked|SUMMARY' "$T/run2.err" "$T/run.err" | head -1 | cut -c1-240)
for f in $(ls -t "$T"/current-*.json 2>/dev/null); do
  "$BIN" "$ID" --replay "$f" >/dev/null 2>"$T/replay.err"; r2=$?
  if ! normal $r2 || [ $r2 -eq 1 ]; then
    out=/verif/replays/$ID-crash-$(sha1sum "$f" | cut -c1-16).json
    python3 - "$f" "$out" "$ID" "process died (exit $rc): $reason" <<'P'
import json,sys
d=json.load(open(sys.argv[1])); d["property"]=sys.argv[3]; d["reason"]=sys.argv[4]
json.dump(d,open(sys.argv[2],"w"),ensure_ascii=False,indent=1)
P
    echo "VIOLATION property=$ID replay=$out"
    echo "  check=$(python3 -c "import json,sys;print(json.load(open(sys.argv[1]))['check'])" "$f") reason=the checking process died (exit $rc; signal $((rc-128)) if > 128) while executing this case: $reason"
    exit 1
  fi
done
echo "INCONCLUSIVE: the check process died (exit $rc, second run exit $rc2) and no traced case reproduces it: $reason" >&2
exit 2
