#!/bin/bash
# Builds the C13 transcript worker once per vaporetto feature subset from /repo's current tree.
# usage: tools/build_workers.sh quick|thorough [checked]
#   -> binaries in /verif/target/workers/bin/; with "checked": the same workers compiled with
#      debug assertions (vaporetto's debug_assert!s and the standard library's checks of unsafe
#      preconditions) in /verif/target/workers-checked/bin/ (used by C18)
set -u
tier=${1:-quick}
mode=${2:-plain}
export CARGO_NET_OFFLINE=true
cd /verif/harness/vworker || exit 2
SUF=""
if [ "$mode" = checked ]; then
  SUF="-checked"
  export RUSTFLAGS="-C debug-assertions=on -C overflow-checks=off"
fi
BIN=/verif/target/workers$SUF/bin
mkdir -p "$BIN"
base=(std cache-type-score fix-weight-length tag-prediction charwise-pma)
configs=()
if [ "$tier" = quick ]; then
  configs+=("std,cache-type-score,fix-weight-length,tag-prediction,charwise-pma")   # default
  configs+=("std,fix-weight-length,tag-prediction,charwise-pma")                    # -cache
  configs+=("std,cache-type-score,tag-prediction,charwise-pma")                     # -fixed
  configs+=("std,cache-type-score,fix-weight-length,tag-prediction")                # -charwise
  configs+=("std,cache-type-score,fix-weight-length,charwise-pma")                  # -tags
  configs+=("")                                                                     # alloc only
  configs+=("std,cache-type-score,fix-weight-length,tag-prediction,charwise-pma,portable-simd")
else
  for m in $(seq 0 31); do
    c=""
    for i in 0 1 2 3 4; do
      if [ $(( (m >> i) & 1 )) -eq 1 ]; then c="$c${c:+,}${base[$i]}"; fi
    done
    configs+=("$c")
    # portable-simd implies fix-weight-length: add it to the subsets that already have it
    if [ $(( (m >> 2) & 1 )) -eq 1 ]; then configs+=("$c,portable-simd"); fi
  done
fi
rm -f "$BIN"/list.txt
for c in "${configs[@]}"; do
  name="w-$(echo "${c:-alloc}" | tr ',' '+')"
  if [[ "$c" == *portable-simd* ]]; then
    tool="+nightly"; tdir=/verif/target/workers$SUF-nightly
  else
    tool=""; tdir=/verif/target/workers$SUF
  fi
  if ! cargo $tool build --release --target-dir "$tdir" --features "$c" >/verif/target/workers-build.log 2>&1; then
    echo "BUILD FAILED for feature set [$c]" >&2; tail -30 /verif/target/workers-build.log >&2; exit 2
  fi
  cp "$tdir/release/vworker" "$BIN/$name" || exit 2
  echo "$name" >> "$BIN"/list.txt
done
echo "built ${#configs[@]} workers"
