#!/bin/bash
# Silence test: every quick check on the current (clean) tree under several VERIF_SEED values.
# usage: tools/seed_sweep.sh [seeds...]   (default 1 2 3 4 5); restores seed-0 evidence afterwards.
cd /verif
seeds=("$@"); [ ${#seeds[@]} -eq 0 ] && seeds=(1 2 3 4 5)
ids=($(python3 -c "import json;print(' '.join(c['property_id'] for c in json.load(open('/verif/MANIFEST.json'))['checks']))"))
EVBAK=$(mktemp -d /verif/target/evidence-bak-XXXXXX); cp -a /verif/evidence/. "$EVBAK"/
bad=0
for s in "${seeds[@]}"; do
  for id in "${ids[@]}"; do
    out=$(VERIF_SEED=$s ./check "$id" quick 2>&1); rc=$?
    if [ $rc -ne 0 ] || echo "$out" | grep -q "^VIOLATION"; then
      echo "ALARM seed=$s $id exit=$rc"; echo "$out" | grep -E "VIOLATION|reason|INCONCLUSIVE" | head -3; bad=1
      mkdir -p /verif/target/sweep-alarms; cp /verif/replays/$id-*.json /verif/target/sweep-alarms/ 2>/dev/null
    fi
  done
  echo "seed $s done"
done
rm -rf /verif/evidence; mkdir -p /verif/evidence; cp -a "$EVBAK"/. /verif/evidence/; rm -rf "$EVBAK"
[ $bad -eq 0 ] && echo "SILENT on all seeds"
exit $bad
