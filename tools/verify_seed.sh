#!/bin/bash
# Confirms a sub-agent's seeded change in its scratch worktree /tmp/seed-<ID>:
#   with the change: existing suite passes (94), demo fails; without it: demo passes.
# Then stores patch + demo under /verif/seeded/<ID>/. usage: tools/verify_seed.sh <ID> [dir-suffix]
set -u
id=$1; suf=${2:-}
W=/tmp/seed$suf-$id
cd "$W" || exit 2
[ -s SEED_PATCH.diff ] || { echo "no SEED_PATCH.diff"; exit 2; }
demo=""
for d in convert_kytea_model/tests/seed_demo.rs evaluate/tests/seed_demo.rs train/tests/seed_demo.rs vaporetto/tests/seed_demo.rs vaporetto_rules/tests/seed_demo.rs vaporetto_tantivy/tests/seed_demo.rs manipulate_model/tests/seed_demo.rs predict/tests/seed_demo.rs seed_demo.sh; do [ -f "$d" ] && demo=$d; done
[ -z "$demo" ] && demo=$(git status --porcelain | grep '^??' | grep -v SEED_PATCH | awk '{print $2}' | head -1)
echo "demo: $demo"
run_demo() {
  case "$demo" in
    *.sh) bash "$demo" >/tmp/seed-demo-$id.log 2>&1 ;;
    */tests/*.rs) pkg=$(echo "$demo" | cut -d/ -f1); t=$(basename "$demo" .rs)
         feats=""; grep -q "Trainer" "$demo" && [ "$pkg" = vaporetto ] && feats="--features train,kytea"; grep -q "verif_examples\|verif_hooks\|verif-hooks" "$demo" && [ "$pkg" = vaporetto ] && feats="--features train,kytea,verif-hooks"
         grep -q "Kytea" "$demo" && [ "$pkg" = vaporetto ] && feats="--features train,kytea"
         cargo test --offline -p $pkg $feats --test $t >/tmp/seed-demo-$id.log 2>&1 ;;
    *) echo "unknown demo kind $demo"; return 2 ;;
  esac
}
# with the change
mv "$demo" /tmp/seed-demo-aside-$id 2>/dev/null
suite=$(cargo nextest run --workspace --no-fail-fast --offline 2>&1 | grep -E "tests run" | tail -1)
mv /tmp/seed-demo-aside-$id "$demo"
echo "suite with change: $suite"
run_demo; with=$?
echo "demo with change: exit $with ($(grep -E 'test result|FAILED|panicked' /tmp/seed-demo-$id.log | head -2 | tr '\n' ' '))"
# (worktrees share one stash: use a patch file instead of git stash)
git diff > /tmp/seed-verify-$id.diff
git checkout -q -- .
run_demo; without=$?
echo "demo without change: exit $without ($(grep -E 'test result' /tmp/seed-demo-$id.log | head -1))"
git apply /tmp/seed-verify-$id.diff; rm -f /tmp/seed-verify-$id.diff
ok=0
echo "$suite" | grep -q "94 passed" && [ $with -ne 0 ] && [ $without -eq 0 ] && ok=1
echo "CONFIRMED=$ok"
if [ $ok -eq 1 ]; then
  D=/verif/seeded/$id${suf:+-$suf}; mkdir -p "$D"
  cp SEED_PATCH.diff "$D/patch.diff"; cp "$demo" "$D/$(basename "$demo")"
  echo "{\"suite_with_change\": \"$suite\", \"demo_with_change_exit\": $with, \"demo_without_change_exit\": $without, \"demo\": \"$demo\"}" > "$D/confirm.json"
fi
