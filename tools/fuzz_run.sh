#!/bin/bash
# Runs one libFuzzer target (cargo-fuzz, nightly, ASan + debug assertions) as N parallel
# instances with fixed -runs, starting from the committed seed corpus.
# usage: tools/fuzz_run.sh <target> <property-id> <runs-per-instance> [instances]
# exit 0: no finding; exit 1: VIOLATION printed (replay = JSON case written by the target);
# exit 2: could not decide (build failure, libFuzzer timeout/oom).
set -u
target=$1; pid=$2; runs=$3; inst=${4:-16}
export CARGO_NET_OFFLINE=true
cd /verif/harness/fuzz || exit 2
if ! cargo +nightly fuzz build "$target" >/verif/target/fuzz-build.log 2>&1; then
  echo "BUILD FAILED (fuzz target $target)" >&2; tail -30 /verif/target/fuzz-build.log >&2; exit 2
fi
BIN=/verif/target/fuzz/x86_64-unknown-linux-gnu/release/$target
W=/verif/target/fuzz-work/$target
rm -rf "$W"; mkdir -p "$W/stats"
seed=${VERIF_SEED:-0}
pids=()
for i in $(seq 1 "$inst"); do
  mkdir -p "$W/c$i" "$W/a$i"
  cp /verif/corpus/fuzz/$target/* "$W/c$i"/ 2>/dev/null
  ( cd "$W/a$i" && VERIF_FUZZ_STATS="$W/stats" ASAN_OPTIONS=detect_leaks=0 "$BIN" -runs="$runs" -seed=$((seed * 1000 + i)) \
      -max_len=2048 -len_control=0 -timeout=120 -rss_limit_mb=3000 -artifact_prefix="$W/a$i/" "$W/c$i" >"$W/log$i.txt" 2>&1 ) &
  pids+=($!)
done
rc=0
for p in "${pids[@]}"; do wait "$p" || rc=1; done
execs=0; cov=0; corp=0
for i in $(seq 1 "$inst"); do
  l=$(grep -E "DONE" "$W/log$i.txt" | tail -1)
  e=$(echo "$l" | sed -n 's/^#\([0-9]*\).*/\1/p'); c=$(echo "$l" | sed -n 's/.*cov: \([0-9]*\).*/\1/p'); k=$(echo "$l" | sed -n 's/.*corp: \([0-9]*\).*/\1/p')
  execs=$((execs + ${e:-0})); [ "${c:-0}" -gt "$cov" ] && cov=$c; corp=$((corp + ${k:-0}))
done
nt=0; for f in "$W"/stats/*.stats; do [ -f "$f" ] && nt=$((nt + $(cut -d' ' -f2 "$f"))); done
mkdir -p /verif/target/fuzz-stats
echo "{\"target\": \"$target\", \"instances\": $inst, \"runs_per_instance\": $runs, \"executions\": $execs, \"nontrivial_executions_counted_in_target\": $nt, \"max_edge_coverage\": $cov, \"corpus_units\": $corp}" > /verif/target/fuzz-stats/$pid-$target.json
if grep -h "^FUZZ-VIOLATION" "$W"/log*.txt >/dev/null 2>&1; then
  line=$(grep -h "^FUZZ-VIOLATION" "$W"/log*.txt | head -1)
  path=$(echo "$line" | sed -n 's/.*replay=\(.*\)$/\1/p')
  echo "VIOLATION property=$pid replay=$path"
  grep -h -A1 "^FUZZ-VIOLATION" "$W"/log*.txt | sed -n 2p
  exit 1
fi
if [ $rc -ne 0 ]; then
  if grep -l -E "ERROR: AddressSanitizer|unsafe precondition" "$W"/log*.txt >/dev/null 2>&1; then
    f=$(grep -l -E "ERROR: AddressSanitizer|unsafe precondition" "$W"/log*.txt | head -1)
    art=$(ls "$W"/a*/crash-* 2>/dev/null | head -1)
    mkdir -p /verif/replays; cp "$art" /verif/replays/$pid-fuzz-$target-$(basename "$art") 2>/dev/null
    echo "VIOLATION property=$pid replay=/verif/replays/$pid-fuzz-$target-$(basename "$art")"
    echo "  fuzz target $target died: $(grep -m1 -E 'ERROR: AddressSanitizer|unsafe precondition' "$f" | cut -c1-200)"
    exit 1
  fi
  echo "INCONCLUSIVE: fuzz target $target stopped abnormally (timeout/oom?): $(grep -h -m1 -E 'ERROR|SUMMARY' "$W"/log*.txt | head -1)" >&2
  exit 2
fi
echo "fuzz $target: $execs executions over $inst instances, max edge coverage $cov, no finding"
exit 0
