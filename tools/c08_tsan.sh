#!/bin/bash
# C08 thorough, schedule clause: the thread stress in a ThreadSanitizer build (nightly,
# -Zbuild-std). A reported data race (exit 66) is a violation; the traced case is the replay.
# exit 0 no race, 1 VIOLATION, 2 could not decide (build failure).
set -u
export CARGO_NET_OFFLINE=true
cd /verif/harness || exit 2
mkdir -p /verif/target/c08tsan /verif/replays
if ! RUSTFLAGS="-Zsanitizer=thread" cargo +nightly build -Zbuild-std --target x86_64-unknown-linux-gnu \
     --release -p vcheck --target-dir /verif/target/tsan >/verif/target/tsan-build.log 2>&1; then
  echo "BUILD FAILED (ThreadSanitizer build)" >&2; tail -30 /verif/target/tsan-build.log >&2; exit 2
fi
BIN=/verif/target/tsan/x86_64-unknown-linux-gnu/release/vcheck
rm -f /verif/target/c08tsan/current-*.json
cp /verif/evidence/C08.json /verif/target/c08tsan/evidence-before.json 2>/dev/null
TSAN_OPTIONS="halt_on_error=1 exitcode=66" VERIF_C08_THREADS_ONLY=1 VERIF_TRACE_CASES=/verif/target/c08tsan \
  "$BIN" C08 thorough >/verif/target/c08tsan/run.out 2>/verif/target/c08tsan/run.err; rc=$?
# this partial run must not replace the evidence of the full check
cp /verif/target/c08tsan/evidence-before.json /verif/evidence/C08.json 2>/dev/null
grep -E "^C08 thorough|threads-tsan" /verif/target/c08tsan/run.out | sed 's/^/tsan: /'
if [ $rc -eq 0 ]; then exit 0; fi
if [ $rc -eq 1 ]; then grep -A1 "^VIOLATION" /verif/target/c08tsan/run.out; exit 1; fi
if [ $rc -eq 66 ] || grep -q "ThreadSanitizer: data race" /verif/target/c08tsan/run.err; then
  f=$(ls -t /verif/target/c08tsan/current-*.json 2>/dev/null | head -1)
  out=/verif/replays/C08-tsan-$(sha1sum "$f" | cut -c1-16).json
  python3 - "$f" "$out" <<'P'
import json,sys
d=json.load(open(sys.argv[1])); d["property"]="C08"; d["check"]="threads"; d["reason"]="ThreadSanitizer reported a data race while this case (or a concurrent one) was executing"
json.dump(d,open(sys.argv[2],"w"),ensure_ascii=False,indent=1)
P
  echo "VIOLATION property=C08 replay=$out"
  echo "  check=threads-tsan reason=$(grep -m1 -A3 'ThreadSanitizer: data race' /verif/target/c08tsan/run.err | tr '\n' ' ' | cut -c1-300)"
  exit 1
fi
echo "INCONCLUSIVE: ThreadSanitizer run ended with exit $rc" >&2; tail -5 /verif/target/c08tsan/run.err >&2
exit 2
