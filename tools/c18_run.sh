#!/bin/bash
# C18 supervisor: builds the checks with AddressSanitizer + debug assertions (nightly), runs the
# sweep in a child process and turns an abnormal death (sanitizer report, checked unsafe
# precondition, SIGSEGV) into a VIOLATION with the case that was executing.
# usage: tools/c18_run.sh quick|thorough | --replay FILE
set -u
export CARGO_NET_OFFLINE=true
cd /verif/harness || exit 2
LOG=/verif/target/c18-build.log
mkdir -p /verif/target/c18 /verif/replays
if ! RUSTFLAGS="-Zsanitizer=address -C debug-assertions=on -C overflow-checks=off" \
     cargo +nightly build --release --target x86_64-unknown-linux-gnu -p vcheck \
     --target-dir /verif/target/asan >"$LOG" 2>&1; then
  echo "BUILD FAILED (sanitizer build of the checks or of /repo)" >&2; tail -40 "$LOG" >&2; exit 2
fi
# one worker per vaporetto feature subset, compiled with debug assertions (sub-check
# feature-configurations); a replay uses whatever set was built last
wt=quick; [ "${1:-}" = "thorough" ] && wt=thorough
if [ "${1:-}" = "--replay" ] && [ -f /verif/target/workers-checked/bin/list.txt ] && [ "$(wc -l < /verif/target/workers-checked/bin/list.txt)" -gt 7 ]; then wt=thorough; fi
if ! /verif/tools/build_workers.sh $wt checked >"$LOG" 2>&1; then
  echo "BUILD FAILED (C18 checked workers)" >&2; tail -40 "$LOG" >&2; exit 2
fi
cd /verif/harness || exit 2
BIN=/verif/target/asan/x86_64-unknown-linux-gnu/release/vcheck
export ASAN_OPTIONS=exitcode=99:detect_leaks=0:abort_on_error=0
normal() { [ "$1" -eq 0 ] || [ "$1" -eq 1 ] || [ "$1" -eq 2 ]; }
if [ "${1:-}" = "--replay" ]; then
  f=$(readlink -f "${2:?replay file}")
  "$BIN" C18 --replay "$f" 2>/verif/target/c18/replay.err; rc=$?
  if normal $rc; then exit $rc; fi
  echo "VIOLATION property=C18 replay=$f"
  echo "  process died (exit $rc) while executing the case: $(grep -m1 -E 'ERROR: AddressSanitizer|unsafe precondition|panicked' /verif/target/c18/replay.err | cut -c1-200)"
  exit 1
fi
if [ "${1:-}" = "thorough" ]; then
  # coverage-guided campaign first (fixed -runs); its statistics go into the evidence
  /verif/tools/fuzz_run.sh sweep C18 12000 16; frc=$?
  if [ $frc -ne 0 ]; then exit $frc; fi
  export VERIF_FUZZ_STATS_JSON=/verif/target/fuzz-stats/C18-sweep.json
  cd /verif/harness
fi
rm -f /verif/target/c18/current-*.json
VERIF_TRACE_CASES=/verif/target/c18 "$BIN" C18 "$@" 2>/verif/target/c18/run.err; rc=$?
if normal $rc; then
  [ $rc -ne 0 ] && tail -5 /verif/target/c18/run.err >&2
  exit $rc
fi
# abnormal death: find the case that was executing
reason=$(grep -m1 -E 'ERROR: AddressSanitizer|unsafe precondition|panicked|SUMMARY' /verif/target/c18/run.err | cut -c1-240)
for f in /verif/target/c18/current-*.json; do
  [ -f "$f" ] || continue
  "$BIN" C18 --replay "$f" >/dev/null 2>/verif/target/c18/replay.err; r2=$?
  if ! normal $r2 || [ $r2 -eq 1 ]; then
    h=$(sha1sum "$f" | cut -c1-16)
    out=/verif/replays/C18-abort-$h.json
    python3 - "$f" "$out" "$reason" <<'P'
import json,sys
d=json.load(open(sys.argv[1])); d["property"]="C18"; d["reason"]=sys.argv[3]
json.dump(d,open(sys.argv[2],"w"),ensure_ascii=False,indent=1)
P
    echo "VIOLATION property=C18 replay=$out"
    echo "  check=$(python3 -c "import json,sys;print(json.load(open(sys.argv[1]))['check'])" "$f") reason=process died (exit $rc): $reason"
    exit 1
  fi
done
echo "INCONCLUSIVE: the sanitizer build died (exit $rc) but no traced case reproduces it: $reason" >&2
exit 2
