#!/bin/bash
# MANIFEST.setup_cmd: offline build of the verification harness from files on disk only.
set -eu
export CARGO_NET_OFFLINE=true
mkdir -p /verif/target /verif/replays /verif/evidence
cd /verif/harness
cargo build --release -p vcheck -p vcheck-tantivy
cargo build --release --manifest-path /repo/Cargo.toml --target-dir /verif/target/repo-bins \
  -p predict -p evaluate -p manipulate_model -p train -p convert_kytea_model
/verif/tools/build_workers.sh quick
/verif/tools/build_workers.sh quick checked
RUSTFLAGS="-Zsanitizer=address -C debug-assertions=on -C overflow-checks=off" \
  cargo +nightly build --release --target x86_64-unknown-linux-gnu -p vcheck --target-dir /verif/target/asan
echo "setup ok"
